//go:build go1.25

package vt

import (
	"os"
	"bytes"
	"context"
	"errors"
	"fmt"
	"io"
	"strings"
	"sync"
	"testing"
	"testing/synctest"
	"time"

	"github.com/ipld/go-ipld-prime/codec/dagcbor"
	"github.com/ipld/go-ipld-prime/datamodel"
	"github.com/ipld/go-ipld-prime/fluent/qp"
	"github.com/ipld/go-ipld-prime/node/basicnode"
	"github.com/libp2p/go-libp2p/core/connmgr"
	"github.com/libp2p/go-libp2p/core/host"
	"github.com/libp2p/go-libp2p/core/network"
	"github.com/libp2p/go-libp2p/core/peer"
	"github.com/libp2p/go-libp2p/core/protocol"
	"pgregory.net/rapid"

	datatransfer "github.com/filecoin-project/go-data-transfer/v2"
	"github.com/filecoin-project/go-data-transfer/v2/message"
	dtnet "github.com/filecoin-project/go-data-transfer/v2/network"

	"verif/harness/gen"
	"verif/harness/stats"
)

// ---- libp2p doubles -------------------------------------------------------

type connDouble struct {
	network.Conn
	remote peer.ID
}

func (c connDouble) RemotePeer() peer.ID { return c.remote }

type streamDouble struct {
	network.Stream
	mu        sync.Mutex
	proto     protocol.ID
	remote    peer.ID
	written   bytes.Buffer
	writes    int
	failWrite int // fail the n-th write (1-based), 0 = never
	in        *bytes.Reader
	closes    int
	resets    int
	closeErr  error
	resetErr  error
}

func (s *streamDouble) Write(p []byte) (int, error) {
	s.mu.Lock()
	defer s.mu.Unlock()
	s.writes++
	if s.failWrite != 0 && s.writes >= s.failWrite {
		return 0, errors.New("write failed")
	}
	return s.written.Write(p)
}
func (s *streamDouble) Read(p []byte) (int, error) {
	if s.in == nil {
		return 0, io.EOF
	}
	return s.in.Read(p)
}
func (s *streamDouble) Close() error {
	s.mu.Lock()
	defer s.mu.Unlock()
	s.closes++
	return s.closeErr
}
func (s *streamDouble) Reset() error {
	s.mu.Lock()
	defer s.mu.Unlock()
	s.resets++
	return s.resetErr
}
func (s *streamDouble) ResetWithError(network.StreamErrorCode) error { return s.Reset() }
func (s *streamDouble) SetDeadline(time.Time) error                  { return nil }
func (s *streamDouble) SetReadDeadline(time.Time) error              { return nil }
func (s *streamDouble) SetWriteDeadline(time.Time) error             { return nil }
func (s *streamDouble) Protocol() protocol.ID                        { return s.proto }
func (s *streamDouble) Conn() network.Conn                           { return connDouble{remote: s.remote} }

type newStreamCall struct {
	at    time.Duration
	end   time.Duration
	to    peer.ID
	pids  []protocol.ID
	ok    bool
	index int
}

type cmDouble struct {
	connmgr.NullConnMgr
}

type hostDouble struct {
	host.Host
	mu       sync.Mutex
	t0       time.Time
	self     peer.ID
	pattern  []bool // per attempt: succeed?
	lat      time.Duration
	calls    []newStreamCall
	streams  []*streamDouble
	failWr   int
	handlers map[protocol.ID]network.StreamHandler
}

func (h *hostDouble) ID() peer.ID                      { return h.self }
func (h *hostDouble) ConnManager() connmgr.ConnManager { return cmDouble{} }
func (h *hostDouble) SetStreamHandler(pid protocol.ID, handler network.StreamHandler) {
	h.mu.Lock()
	defer h.mu.Unlock()
	h.handlers[pid] = handler
}

func (h *hostDouble) NewStream(ctx context.Context, p peer.ID, pids ...protocol.ID) (network.Stream, error) {
	h.mu.Lock()
	idx := len(h.calls)
	c := newStreamCall{at: time.Since(h.t0), to: p, pids: pids, index: idx}
	ok := idx < len(h.pattern) && h.pattern[idx]
	h.calls = append(h.calls, c)
	lat := h.lat
	h.mu.Unlock()
	var err error
	select {
	case <-time.After(lat):
	case <-ctx.Done():
		err = ctx.Err()
	}
	h.mu.Lock()
	defer h.mu.Unlock()
	h.calls[idx].end = time.Since(h.t0)
	if err != nil {
		return nil, err
	}
	if !ok {
		return nil, errors.New("dial failed")
	}
	h.calls[idx].ok = true
	s := &streamDouble{proto: datatransfer.ProtocolDataTransfer1_2, remote: p, failWrite: h.failWr}
	h.streams = append(h.streams, s)
	return s, nil
}

// ---- receiver double ------------------------------------------------------

type rcvCall struct {
	kind string // request response restart-existing error
	from peer.ID
	obs  string
}

type receiverDouble struct {
	mu    sync.Mutex
	calls []rcvCall
}

func msgObs(m datatransfer.Message) string {
	var b bytes.Buffer
	_ = m.ToNet(&b)
	return fmt.Sprintf("%x", b.Bytes())
}

func (r *receiverDouble) add(c rcvCall) {
	r.mu.Lock()
	r.calls = append(r.calls, c)
	r.mu.Unlock()
}
func (r *receiverDouble) ReceiveRequest(ctx context.Context, sender peer.ID, incoming datatransfer.Request) {
	r.add(rcvCall{"request", sender, msgObs(incoming)})
}
func (r *receiverDouble) ReceiveResponse(ctx context.Context, sender peer.ID, incoming datatransfer.Response) {
	r.add(rcvCall{"response", sender, msgObs(incoming)})
}
func (r *receiverDouble) ReceiveRestartExistingChannelRequest(ctx context.Context, sender peer.ID, incoming datatransfer.Request) {
	r.add(rcvCall{"restart-existing", sender, msgObs(incoming)})
}
func (r *receiverDouble) ReceiveError(err error) { r.add(rcvCall{kind: "error", obs: err.Error()}) }

// ---- messages -------------------------------------------------------------

func drawMessage(t *rapid.T) (datatransfer.Message, string) {
	id := datatransfer.TransferID(rapid.Uint64().Draw(t, "id"))
	v := datatransfer.TypedVoucher{Type: "T/a", Voucher: basicnode.NewString(rapid.StringN(0, 8, 16).Draw(t, "voucher"))}
	if rapid.IntRange(0, 39).Draw(t, "largeVoucher") == 0 {
		// a voucher around and beyond one MiB: no size limit is documented for a message
		n := rapid.SampledFrom([]int{1<<20 - 200, 1 << 20, 1<<20 + 1, 3 << 20}).Draw(t, "voucherBytes")
		v.Voucher = basicnode.NewBytes(bytes.Repeat([]byte{0xab}, n))
	}
	switch rapid.IntRange(0, 8).Draw(t, "msgKind") {
	case 0:
		m, _ := message.NewRequest(id, false, rapid.Bool().Draw(t, "pull"), &v, gen.CidOf([]byte("x")), basicnode.NewString("sel"))
		return m, "request"
	case 1:
		m, _ := message.NewRequest(id, true, rapid.Bool().Draw(t, "pull"), &v, gen.CidOf([]byte("x")), basicnode.NewString("sel"))
		return m, "request"
	case 2:
		return message.UpdateRequest(id, rapid.Bool().Draw(t, "paused")), "request"
	case 3:
		return message.CancelRequest(id), "request"
	case 4:
		m, _ := message.VoucherRequest(id, &v)
		return m, "request"
	case 5:
		return message.RestartExistingChannelRequest(datatransfer.ChannelID{Initiator: gen.Peer(1), Responder: gen.Peer(2), ID: id}), "restart-existing"
	case 6:
		m, _ := message.NewResponse(id, rapid.Bool().Draw(t, "accepted"), rapid.Bool().Draw(t, "paused"), &v)
		return m, "response"
	case 7:
		m, _ := message.CompleteResponse(id, true, rapid.Bool().Draw(t, "paused"), nil)
		return m, "response"
	default:
		return message.CancelResponse(id), "response"
	}
}

// ---- sends ----------------------------------------------------------------

type sendCase struct {
	attempts   int
	pattern    []bool
	minB, maxB time.Duration
	factor     float64
	lat        time.Duration
	openTO     time.Duration
	cancelAt   time.Duration // <0: never
	failWrite  int
	msg        datatransfer.Message
	exhaustive bool
	// earlier sends on the same network object: number of failed attempts each of them saw before it succeeded
	earlier []int
}

type sendResult struct {
	err     error
	retAt   time.Duration
	calls   []newStreamCall
	streams []*streamDouble
}

func runSend(t *testing.T, c sendCase) sendResult {
	var res sendResult
	synctest.Test(t, func(t *testing.T) {
		h := &hostDouble{t0: time.Now(), self: gen.Peer(0), pattern: c.pattern, lat: c.lat, failWr: c.failWrite, handlers: map[protocol.ID]network.StreamHandler{}}
		n := dtnet.NewFromLibp2pHost(h, dtnet.RetryParameters(c.minB, c.maxB, float64(c.attempts), c.factor), dtnet.SendMessageParameters(c.openTO, 10*time.Second))
		// earlier sends on the same network object (each send is a fresh start: what they
		// went through must not change what this send is allowed)
		for _, fails := range c.earlier {
			h.mu.Lock()
			h.pattern = nil
			for k := 0; k < fails; k++ {
				h.pattern = append(h.pattern, false)
			}
			h.pattern = append(h.pattern, true)
			h.calls, h.streams, h.failWr = nil, nil, 0
			h.mu.Unlock()
			_ = n.SendMessage(context.Background(), gen.Peer(3), c.msg)
		}
		h.mu.Lock()
		h.pattern, h.calls, h.streams, h.failWr, h.t0 = c.pattern, nil, nil, c.failWrite, time.Now()
		h.mu.Unlock()
		ctx, cancel := context.WithCancel(context.Background())
		done := make(chan struct{})
		if c.cancelAt >= 0 {
			go func() {
				select {
				case <-time.After(c.cancelAt):
					cancel()
				case <-done:
				}
			}()
		}
		res.err = n.SendMessage(ctx, gen.Peer(3), c.msg)
		res.retAt = time.Since(h.t0)
		close(done)
		cancel()
		synctest.Wait()
		h.mu.Lock()
		res.calls = append(res.calls, h.calls...)
		res.streams = append(res.streams, h.streams...)
		h.mu.Unlock()
	})
	return res
}

func checkSend(c sendCase, r sendResult) (string, string) {
	capN := c.attempts
	if capN < 1 {
		capN = 1
	}
	firstOK := -1
	for i, ok := range c.pattern {
		// an attempt only succeeds if its latency fits the per-attempt timeout
		if ok && c.lat < c.openTO {
			firstOK = i
			break
		}
	}
	for _, call := range r.calls {
		if call.to != gen.Peer(3) || len(call.pids) != 1 || call.pids[0] != datatransfer.ProtocolDataTransfer1_2 {
			return "C15/wrong-peer-or-protocol", fmt.Sprintf("stream opened to %s with protocols %v", call.to, call.pids)
		}
	}
	if len(r.calls) > capN {
		return "C15/too-many-attempts", fmt.Sprintf("%d stream-open attempts, configured %d", len(r.calls), c.attempts)
	}
	if c.cancelAt < 0 {
		want := capN
		if firstOK >= 0 && firstOK+1 < capN {
			want = firstOK + 1
		}
		if len(r.calls) != want {
			return "C15/attempt-count", fmt.Sprintf("%d stream-open attempts, want %d (pattern %v, cap %d)", len(r.calls), want, c.pattern, capN)
		}
		opened := firstOK >= 0 && firstOK < capN
		wantOK := opened && c.failWrite == 0
		if (r.err == nil) != wantOK {
			return "C15/send-result", fmt.Sprintf("SendMessage returned %v; an attempt succeeded=%v, write fails=%v", r.err, opened, c.failWrite != 0)
		}
		if opened {
			if len(r.streams) != 1 {
				return "C15/stream-count", fmt.Sprintf("%d streams opened for one message", len(r.streams))
			}
			s := r.streams[0]
			if c.failWrite == 0 {
				got, err := message.FromNet(bytes.NewReader(s.written.Bytes()))
				if err != nil {
					return "C15/delivered-bytes", fmt.Sprintf("the bytes on the stream do not decode as exactly one message: %v", err)
				}
				if msgObs(got) != msgObs(c.msg) {
					return "C15/delivered-message", "the delivered message differs from the sent one"
				}
				if s.closes != 1 || s.resets != 0 {
					return "C15/stream-close", fmt.Sprintf("after a successful send: %d closes, %d resets", s.closes, s.resets)
				}
			} else {
				if s.resets != 1 {
					return "C15/no-reset-on-write-failure", fmt.Sprintf("failed write: %d resets", s.resets)
				}
			}
		}
		return "", ""
	}
	// cancelled at cancelAt: it must return promptly (at the cancel instant, unless it had finished before)
	natural := time.Duration(0)
	done := false
	// when would it have finished on its own? only computable for exact back-offs (min == max)
	if c.minB == c.maxB {
		tt := time.Duration(0)
		for i := 0; i < capN; i++ {
			step := c.lat
			if step > c.openTO {
				step = c.openTO
			}
			tt += step
			if firstOK == i {
				done = true
				break
			}
			if i+1 < capN {
				tt += c.minB
			}
		}
		done = true
		natural = tt
	}
	if done && natural <= c.cancelAt {
		return "", "" // finished before the cancel: judged by the uncancelled rule in other cases
	}
	if done && r.retAt != c.cancelAt {
		return "C15/cancel-not-prompt", fmt.Sprintf("context cancelled at %v but SendMessage returned at %v (would have ended at %v)", c.cancelAt, r.retAt, natural)
	}
	if !done && r.retAt > c.cancelAt+c.lat {
		return "C15/cancel-not-prompt", fmt.Sprintf("context cancelled at %v but SendMessage returned at %v", c.cancelAt, r.retAt)
	}
	if r.err == nil && len(r.streams) == 0 {
		return "C15/send-result", "cancelled send returned nil without a stream"
	}
	for _, call := range r.calls {
		if call.at > c.cancelAt {
			return "C15/attempt-after-cancel", fmt.Sprintf("stream-open attempt at %v after the cancel at %v", call.at, c.cancelAt)
		}
	}
	return "", ""
}

func TestC15_Send(t *testing.T) {
	sp := stats.For("C15")
	sp.SetRule("netx (virtual time, testing/synctest) over a scripted libp2p host double. Sends: attempts 0..6 (integral; 0 behaves as 1), fail/succeed pattern per attempt, per-attempt latency vs. open timeout, exact back-off (min == max) or jittered, context cancelled before / during an attempt / during a back-off / never, n-th write failing. Oracle: NewStream calls == min(max(1,cap), first success), all to the intended peer and protocol; nil result iff an attempt and the write succeeded; then exactly one message on the stream that decodes to the sent one, one Close, no Reset; Reset + error on a failed write; cancellation returns at the cancel instant with no attempt afterwards. Inbound: one valid message of any kind / valid + trailing bytes / garbage / truncated / empty, from a generated remote peer. Oracle: exactly one handler call on the method matching the kind with that peer and an equal message; malformed => Reset, one error report, no message handler. Non-trivial: a failed attempt followed by a success or a cancel; inbound: non-empty stream; distinct by (pattern, cap, cancel phase, write fault) resp. (kind, tail class)")
	rapid.Check(t, func(rt *rapid.T) {
		msg, _ := drawMessage(rt)
		c := sendCase{attempts: rapid.IntRange(0, 6).Draw(rt, "attempts"), msg: msg, cancelAt: -1}
		np := rapid.IntRange(0, 7).Draw(rt, "patternLen")
		for i := 0; i < np; i++ {
			c.pattern = append(c.pattern, rapid.IntRange(0, 2).Draw(rt, "ok") == 0)
		}
		c.lat = time.Duration(rapid.IntRange(0, 30).Draw(rt, "latency")) * 10 * ms
		c.openTO = time.Duration(rapid.IntRange(1, 40).Draw(rt, "openTimeout"))*10*ms + 5*ms
		c.minB = time.Duration(rapid.IntRange(1, 50).Draw(rt, "minBackoff"))*10*ms + 1*ms
		c.maxB = c.minB
		c.factor = float64(rapid.IntRange(1, 5).Draw(rt, "factor"))
		if rapid.IntRange(0, 3).Draw(rt, "jitter") == 0 {
			c.maxB = c.minB * time.Duration(rapid.IntRange(2, 10).Draw(rt, "maxMul"))
		}
		if rapid.Bool().Draw(rt, "cancel") {
			c.cancelAt = time.Duration(rapid.IntRange(0, 400).Draw(rt, "cancelAt"))*5*ms + 2*ms
		}
		if rapid.IntRange(0, 3).Draw(rt, "writeFails") == 0 {
			c.failWrite = rapid.IntRange(1, 2).Draw(rt, "failWrite")
		}
		for k := rapid.IntRange(0, 2).Draw(rt, "earlierSends"); k > 0; k-- {
			c.earlier = append(c.earlier, rapid.IntRange(0, 3).Draw(rt, "earlierFailures"))
		}
		r := runSend(t, c)
		if key, m := checkSend(c, r); key != "" {
			var calls []string
			for _, x := range r.calls {
				calls = append(calls, fmt.Sprintf("#%d [%v,%v] ok=%v", x.index, x.at, x.end, x.ok))
			}
			rt.Fatalf("VIOLATION-KEY=%s %s\ncase: earlier sends on the same network object (failed attempts each)=%v attempts=%d pattern=%v latency=%v openTimeout=%v backoff=[%v,%v]x%v cancelAt=%v failWrite=%d\nresult: err=%v returnedAt=%v\nNewStream calls:\n  %s",
				key, m, c.earlier, c.attempts, c.pattern, c.lat, c.openTO, c.minB, c.maxB, c.factor, c.cancelAt, c.failWrite, r.err, r.retAt, strings.Join(calls, "\n  "))
		}
		sp.Eval()
		failedThenMore := len(r.calls) >= 2 || (len(r.calls) >= 1 && c.cancelAt >= 0 && !r.calls[0].ok)
		if failedThenMore {
			phase := "none"
			if c.cancelAt >= 0 {
				phase = "cancelled"
			}
			fp := stats.FP("send", fmt.Sprint(c.pattern), c.attempts, phase, c.failWrite)
			sp.Nontrivial(fp)
			if sp.WantSample() {
				sp.Sample(fp, map[string]any{"engine": "netx", "kind": "send", "attempts": c.attempts, "pattern": c.pattern, "cancel_at": c.cancelAt.String(), "fail_write": c.failWrite, "newstream_calls": len(r.calls), "result": fmt.Sprint(r.err), "returned_at": r.retAt.String()})
			}
			sp.Class("send_retry_or_cancel")
		}
		if c.cancelAt >= 0 {
			sp.Class("send_with_cancel")
		}
		if c.failWrite != 0 {
			sp.Class("send_with_write_fault")
		}
		if len(c.earlier) > 0 {
			sp.Class("send_after_earlier_sends_on_the_same_network")
		}
	})
}

// TestC15_SendPatterns enumerates every fail/succeed pattern up to the attempt cap for caps 0..6.
func TestC15_SendPatterns(t *testing.T) {
	sp := stats.For("C15")
	msg := message.CancelRequest(7)
	for attempts := 0; attempts <= 6; attempts++ {
		n := attempts
		if n < 1 {
			n = 1
		}
		for bits := 0; bits < 1<<n; bits++ {
			c := sendCase{attempts: attempts, msg: msg, cancelAt: -1, lat: 10 * ms, openTO: 55 * ms, minB: 21 * ms, maxB: 21 * ms, factor: 2}
			for i := 0; i < n; i++ {
				c.pattern = append(c.pattern, bits&(1<<i) != 0)
			}
			r := runSend(t, c)
			if key, m := checkSend(c, r); key != "" {
				t.Fatalf("VIOLATION-KEY=%s %s (attempts=%d pattern=%v)", key, m, attempts, c.pattern)
			}
			sp.Eval()
			sp.Nontrivial(stats.FP("pattern", attempts, bits))
		}
	}
	sp.Class("all_patterns_up_to_cap_6_enumerated")
}

// ---- inbound --------------------------------------------------------------

// reEnvelope re-encodes a message's envelope with the IsRq flag flipped (the body
// stays where it was), or with both bodies null.
func reEnvelope(rt *rapid.T, msg datatransfer.Message, noBody bool) []byte {
	nd := msg.ToIPLD()
	get := func(k string) datamodel.Node {
		v, err := nd.LookupByString(k)
		if err != nil {
			return datamodel.Null
		}
		return v
	}
	flag, _ := get("IsRq").AsBool()
	req, resp := get("Request"), get("Response")
	if noBody {
		req, resp = datamodel.Null, datamodel.Null
		flag = rapid.Bool().Draw(rt, "flag")
	} else {
		flag = !flag
	}
	out, err := qp.BuildMap(basicnode.Prototype.Map, 3, func(ma datamodel.MapAssembler) {
		qp.MapEntry(ma, "IsRq", qp.Bool(flag))
		qp.MapEntry(ma, "Request", qp.Node(req))
		qp.MapEntry(ma, "Response", qp.Node(resp))
	})
	if err != nil {
		panic(err)
	}
	var b bytes.Buffer
	if err := dagcbor.Encode(out, &b); err != nil {
		panic(err)
	}
	return b.Bytes()
}

func TestC15_Inbound(t *testing.T) {
	sp := stats.For("C15")
	rapid.Check(t, func(rt *rapid.T) {
		msg, kind := drawMessage(rt)
		var valid bytes.Buffer
		if err := msg.ToNet(&valid); err != nil {
			rt.Fatalf("HARNESS ToNet: %v", err)
		}
		class := rapid.SampledFrom([]string{"valid", "valid", "valid+tail", "garbage", "truncated", "empty", "wrong-flag", "no-body"}).Draw(rt, "class")
		var content []byte
		switch class {
		case "valid":
			content = valid.Bytes()
		case "valid+tail":
			content = append(append([]byte{}, valid.Bytes()...), rapid.SliceOfN(rapid.Byte(), 1, 8).Draw(rt, "tail")...)
		case "garbage":
			content = rapid.SliceOfN(rapid.Byte(), 1, 40).Draw(rt, "garbage")
			// make sure it is not accidentally a valid message
			if _, err := message.FromNet(bytes.NewReader(content)); err == nil {
				content = []byte{0xff, 0x00}
			} else if err == io.EOF || err == io.ErrUnexpectedEOF {
				// a prefix of some CBOR value: indistinguishable from a stream that ended early
				class = "truncated"
			}
		case "truncated":
			content = valid.Bytes()[:rapid.IntRange(1, valid.Len()-1).Draw(rt, "cut")]
		case "empty":
			content = nil
		case "wrong-flag", "no-body":
			// a schema-valid envelope whose IsRq flag disagrees with the body present, or without any body
			content = reEnvelope(rt, msg, class == "no-body")
		}
		remote := gen.Peer(rapid.IntRange(1, 9).Draw(rt, "remote"))
		rcv := &receiverDouble{}
		s := &streamDouble{proto: datatransfer.ProtocolDataTransfer1_2, remote: remote, in: bytes.NewReader(content)}
		var panicked any
		synctest.Test(t, func(t *testing.T) {
			h := &hostDouble{t0: time.Now(), self: gen.Peer(0), handlers: map[protocol.ID]network.StreamHandler{}}
			n := dtnet.NewFromLibp2pHost(h)
			n.SetDelegate(rcv)
			handler := h.handlers[datatransfer.ProtocolDataTransfer1_2]
			if handler == nil {
				panicked = "no stream handler registered for the data-transfer protocol"
				return
			}
			func() {
				defer func() { panicked = recover() }()
				handler(s)
			}()
			synctest.Wait()
		})
		desc := fmt.Sprintf("inbound %s stream (%d bytes, message kind %s) from %s", class, len(content), kind, gen.PeerName(remote))
		failf := func(key, f string, a ...any) {
			if os.Getenv("VERIF_PROP") == "C12" {
				// the same observation, named for the property this run decides (a message that
				// does not survive the network form)
				key = "C12/network-form/" + strings.TrimPrefix(key, "C15/")
			}
			var calls []string
			for _, c := range rcv.calls {
				calls = append(calls, fmt.Sprintf("%s from %s", c.kind, gen.PeerName(c.from)))
			}
			rt.Fatalf("VIOLATION-KEY=%s %s: %s\nreceiver calls: %v; stream closes=%d resets=%d", key, desc, fmt.Sprintf(f, a...), calls, s.closes, s.resets)
		}
		if panicked != nil {
			failf("C15/inbound-panic", "handler panicked: %v", panicked)
		}
		var handlers, errs []rcvCall
		for _, c := range rcv.calls {
			if c.kind == "error" {
				errs = append(errs, c)
			} else {
				handlers = append(handlers, c)
			}
		}
		switch class {
		case "valid":
			if len(handlers) != 1 || handlers[0].kind != kind || handlers[0].from != remote || handlers[0].obs != msgObs(msg) {
				failf("C15/inbound-dispatch", "want exactly one %s call with the authenticated peer and an equal message", kind)
			}
			if len(errs) != 0 || s.resets != 0 {
				failf("C15/inbound-spurious-error", "valid stream reported %d errors, %d resets", len(errs), s.resets)
			}
			if s.closes < 1 {
				failf("C15/inbound-not-closed", "stream not closed")
			}
		case "valid+tail", "garbage", "wrong-flag", "no-body":
			if len(handlers) != 0 {
				failf("C15/malformed-dispatched", "a message handler was invoked for a malformed stream")
			}
			if len(errs) != 1 || s.resets < 1 {
				failf("C15/malformed-not-reported", "malformed stream: %d error reports, %d resets", len(errs), s.resets)
			}
		case "truncated", "empty":
			if len(handlers) != 0 {
				failf("C15/malformed-dispatched", "a message handler was invoked for an incomplete stream")
			}
			if len(errs) > 1 || (len(errs) == 1 && s.resets < 1) {
				failf("C15/malformed-not-reported", "incomplete stream: %d error reports, %d resets", len(errs), s.resets)
			}
		}
		sp.Eval()
		if os.Getenv("VERIF_PROP") == "C12" {
			stats.For("C12").Eval()
			stats.For("C12").Class("network_form_through_the_stream_handler")
			if len(content) >= 1<<20-4096 {
				stats.For("C12").Class("network_form_message_of_a_mebibyte_or_more")
			}
			if class == "valid" {
				stats.For("C12").Nontrivial(stats.FP("net-handler", kind, len(content) >= 1<<20-4096))
			}
		}
		if class != "empty" {
			fp := stats.FP("inbound", kind, class, msg.IsRequest(), msg.IsNew(), msg.IsCancel())
			sp.Nontrivial(fp)
			if sp.WantSample() && len(content) < 4096 {
				sp.Sample(fp, map[string]any{"engine": "netx", "kind": "inbound", "class": class, "message_kind": kind, "bytes_hex": fmt.Sprintf("%x", content), "receiver_calls": len(rcv.calls)})
			}
		}
		sp.Class("inbound_" + class)
	})
}
