//go:build go1.25

package vt

import (
	"context"
	"errors"
	"fmt"
	"os"
	"sort"
	"strings"
	"sync"
	"testing"
	"testing/synctest"
	"time"

	"github.com/libp2p/go-libp2p/core/peer"
	"pgregory.net/rapid"

	datatransfer "github.com/filecoin-project/go-data-transfer/v2"
	"github.com/filecoin-project/go-data-transfer/v2/channelmonitor"

	"verif/harness/gen"
	"verif/harness/stats"
)

func TestMain(m *testing.M) {
	code := m.Run()
	stats.Flush()
	os.Exit(code)
}

const ms = time.Millisecond
const us = time.Microsecond

// apiCall is one call on the monitor API double, stamped with virtual time.
type apiCall struct {
	kind       string // connect restart close
	start, end time.Duration
	err        error
	done       bool
	msg        string
}

type apiDouble struct {
	mu        sync.Mutex
	t0        time.Time
	self      peer.ID
	subs      map[int]datatransfer.Subscriber
	nextSub   int
	subCount  int
	unsubs    int
	calls     []*apiCall
	connFail  bool
	restFail  bool
	connLat   time.Duration
	restLat   time.Duration
	inFlight  int
	maxFlight int
}

func (a *apiDouble) now() time.Duration { return time.Since(a.t0) }

func (a *apiDouble) SubscribeToEvents(s datatransfer.Subscriber) datatransfer.Unsubscribe {
	a.mu.Lock()
	defer a.mu.Unlock()
	id := a.nextSub
	a.nextSub++
	a.subs[id] = s
	a.subCount++
	return func() {
		a.mu.Lock()
		defer a.mu.Unlock()
		if _, ok := a.subs[id]; ok {
			delete(a.subs, id)
			a.unsubs++
		}
	}
}

func (a *apiDouble) timed(ctx context.Context, kind string, lat time.Duration, fail bool) error {
	a.mu.Lock()
	c := &apiCall{kind: kind, start: a.now()}
	a.calls = append(a.calls, c)
	a.inFlight++
	if a.inFlight > a.maxFlight {
		a.maxFlight = a.inFlight
	}
	a.mu.Unlock()
	var err error
	if ctx.Err() != nil {
		lat = 0
	}
	select {
	case <-ctx.Done():
		err = ctx.Err()
	default:
	}
	if err == nil {
		err = a.wait(ctx, lat, kind, fail)
	}
	a.mu.Lock()
	c.end, c.err, c.done = a.now(), err, true
	a.inFlight--
	a.mu.Unlock()
	return err
}

func (a *apiDouble) wait(ctx context.Context, lat time.Duration, kind string, fail bool) error {
	var err error
	select {
	case <-time.After(lat):
		if fail {
			err = errors.New(kind + " failed")
		}
	case <-ctx.Done():
		err = ctx.Err()
	}
	return err
}

func (a *apiDouble) ConnectTo(ctx context.Context, p peer.ID) error {
	a.mu.Lock()
	lat, fail := a.connLat, a.connFail
	a.mu.Unlock()
	return a.timed(ctx, "connect", lat, fail)
}

func (a *apiDouble) RestartDataTransferChannel(ctx context.Context, chid datatransfer.ChannelID) error {
	a.mu.Lock()
	lat, fail := a.restLat, a.restFail
	a.mu.Unlock()
	return a.timed(ctx, "restart", lat, fail)
}

func (a *apiDouble) CloseDataTransferChannelWithError(ctx context.Context, chid datatransfer.ChannelID, cherr error) error {
	a.mu.Lock()
	defer a.mu.Unlock()
	n := a.now()
	a.calls = append(a.calls, &apiCall{kind: "close", start: n, end: n, done: true, msg: cherr.Error()})
	return nil
}

func (a *apiDouble) PeerID() peer.ID { return a.self }

func (a *apiDouble) deliver(evt datatransfer.Event, st datatransfer.ChannelState) {
	a.mu.Lock()
	ids := make([]int, 0, len(a.subs))
	for id := range a.subs {
		ids = append(ids, id)
	}
	sort.Ints(ids)
	subs := make([]datatransfer.Subscriber, 0, len(ids))
	for _, id := range ids {
		subs = append(subs, a.subs[id])
	}
	a.mu.Unlock()
	for _, s := range subs {
		s(evt, st)
	}
}

func (a *apiDouble) snapshot() []apiCall {
	a.mu.Lock()
	defer a.mu.Unlock()
	out := make([]apiCall, len(a.calls))
	for i, c := range a.calls {
		out[i] = *c
	}
	return out
}

// cst is the part of a channel state the monitor looks at.
type cst struct {
	datatransfer.ChannelState
	chid   datatransfer.ChannelID
	status datatransfer.Status
}

func (c cst) ChannelID() datatransfer.ChannelID { return c.chid }
func (c cst) Status() datatransfer.Status       { return c.status }

// script
type monStep struct {
	kind    string // advance event behave
	d       time.Duration
	code    datatransfer.EventCode
	status  datatransfer.Status
	other   bool // event for another channel
	burst   int
	gap     time.Duration
	connLat time.Duration
	restLat time.Duration
	cFail   bool
	rFail   bool
}

type monScript struct {
	disabled bool
	cfg      channelmonitor.Config
	push     bool
	steps    []monStep
}

// dur draws k*10ms + a 1..3 microsecond residue (so that internal timer
// instants never tie with event instants, which are multiples of 10ms).
func dur(t *rapid.T, label string, maxTens int, allowZero bool) time.Duration {
	lo := 1
	if allowZero {
		lo = 0
	}
	k := rapid.IntRange(lo, maxTens).Draw(t, label)
	if k == 0 {
		return 0
	}
	return time.Duration(k)*10*ms + time.Duration(rapid.IntRange(1, 3).Draw(t, label+"Res"))*us
}

// debounceDur: like dur, but "no debounce" is generated as 1..3 us instead of
// exactly 0, so that a trigger never ties with the event instant that caused it
func debounceDur(t *rapid.T) time.Duration {
	d := dur(t, "debounce", 20, true)
	if d == 0 {
		d = time.Duration(rapid.IntRange(1, 3).Draw(t, "debounceRes0")) * us
	}
	return d
}

var okStatuses = []datatransfer.Status{datatransfer.Requested, datatransfer.Ongoing, datatransfer.TransferFinished, datatransfer.ResponderCompleted, datatransfer.Queued, datatransfer.AwaitingAcceptance}
var endStatuses = []datatransfer.Status{datatransfer.Cancelling, datatransfer.Failing, datatransfer.Completing, datatransfer.Cancelled, datatransfer.Failed, datatransfer.Completed}

func drawMonScript(t *rapid.T, failures bool) monScript {
	var s monScript
	s.disabled = rapid.IntRange(0, 19).Draw(t, "disabled") == 0
	s.push = rapid.Bool().Draw(t, "push")
	s.cfg = channelmonitor.Config{
		AcceptTimeout:          dur(t, "accept", 200, true),
		CompleteTimeout:        dur(t, "complete", 200, true),
		RestartDebounce:        debounceDur(t),
		RestartBackoff:         dur(t, "backoff", 50, true),
		MaxConsecutiveRestarts: uint32(rapid.IntRange(1, 5).Draw(t, "maxRestarts")),
	}
	n := rapid.IntRange(1, 40).Draw(t, "steps")
	for i := 0; i < n; i++ {
		k := rapid.IntRange(0, 9).Draw(t, "stepKind")
		switch {
		case k <= 3:
			s.steps = append(s.steps, monStep{kind: "advance", d: time.Duration(rapid.IntRange(1, 60).Draw(t, "adv")) * 10 * ms})
		case k <= 7:
			st := monStep{kind: "event", other: rapid.IntRange(0, 7).Draw(t, "other") == 0}
			switch rapid.IntRange(0, 11).Draw(t, "evKind") {
			case 0, 1, 2, 3:
				st.code = rapid.SampledFrom([]datatransfer.EventCode{datatransfer.SendDataError, datatransfer.ReceiveDataError}).Draw(t, "errCode")
				st.status = datatransfer.Ongoing
				st.burst = rapid.IntRange(1, 4).Draw(t, "burst")
				st.gap = time.Duration(rapid.IntRange(0, 12).Draw(t, "gap")) * 10 * ms
			case 4:
				st.code, st.status = datatransfer.Accept, datatransfer.Ongoing
			case 5:
				st.code, st.status = datatransfer.FinishTransfer, datatransfer.TransferFinished
			case 6, 7:
				st.code = rapid.SampledFrom([]datatransfer.EventCode{datatransfer.DataSent, datatransfer.DataReceived}).Draw(t, "dataCode")
				st.status = datatransfer.Ongoing
			case 8:
				st.code = rapid.SampledFrom([]datatransfer.EventCode{datatransfer.Cancel, datatransfer.Error, datatransfer.CleanupComplete, datatransfer.ResponderCompletes}).Draw(t, "endCode")
				st.status = rapid.SampledFrom(endStatuses).Draw(t, "endStatus")
			default:
				st.code = rapid.SampledFrom([]datatransfer.EventCode{datatransfer.Open, datatransfer.Restart, datatransfer.NewVoucher, datatransfer.PauseInitiator, datatransfer.Disconnected, datatransfer.DataQueued, datatransfer.Opened}).Draw(t, "miscCode")
				st.status = rapid.SampledFrom(okStatuses).Draw(t, "okStatus")
			}
			s.steps = append(s.steps, st)
		default:
			st := monStep{kind: "behave", connLat: dur(t, "connLat", 30, true), restLat: dur(t, "restLat", 30, true)}
			if failures {
				st.cFail = rapid.IntRange(0, 2).Draw(t, "cFail") == 0
				st.rFail = rapid.IntRange(0, 2).Draw(t, "rFail") == 0
			}
			s.steps = append(s.steps, st)
		}
	}
	return s
}

type deliveredEvent struct {
	at     time.Duration
	code   datatransfer.EventCode
	status datatransfer.Status
	other  bool
}

// runMon executes a script inside a virtual-time bubble and returns the history.
type monHistory struct {
	calls       []apiCall
	events      []deliveredEvent
	addAt       time.Duration
	addNil      bool
	subCount    int
	unsubs      int
	maxFlight   int
	endAt       time.Duration
	readdNonNil bool
	readdTried  bool
	afterEnd    []apiCall
}

func runMon(t *testing.T, s monScript) monHistory {
	var h monHistory
	synctest.Test(t, func(t *testing.T) {
		api := &apiDouble{t0: time.Now(), self: gen.Peer(0), subs: map[int]datatransfer.Subscriber{}, connLat: 10*ms + us, restLat: 10*ms + 2*us}
		var cfg *channelmonitor.Config
		if !s.disabled {
			c := s.cfg
			cfg = &c
		}
		m := channelmonitor.NewMonitor(api, cfg)
		chid := datatransfer.ChannelID{Initiator: gen.Peer(0), Responder: gen.Peer(1), ID: 7}
		otherChid := datatransfer.ChannelID{Initiator: gen.Peer(0), Responder: gen.Peer(2), ID: 8}
		// start at a multiple of 10ms
		h.addAt = api.now()
		var mc interface{ Shutdown() bool }
		if s.push {
			if x := m.AddPushChannel(chid); x != nil {
				mc = x
			}
		} else {
			if x := m.AddPullChannel(chid); x != nil {
				mc = x
			}
		}
		h.addNil = mc == nil
		ended := false
		for _, st := range s.steps {
			switch st.kind {
			case "advance":
				time.Sleep(st.d)
				synctest.Wait()
			case "behave":
				api.mu.Lock()
				api.connLat, api.restLat, api.connFail, api.restFail = st.connLat, st.restLat, st.cFail, st.rFail
				api.mu.Unlock()
			case "event":
				n := st.burst
				if n == 0 {
					n = 1
				}
				for i := 0; i < n; i++ {
					id := chid
					if st.other {
						id = otherChid
					}
					api.deliver(datatransfer.Event{Code: st.code}, cst{chid: id, status: st.status})
					h.events = append(h.events, deliveredEvent{at: api.now(), code: st.code, status: st.status, other: st.other})
					synctest.Wait()
					if i+1 < n && st.gap > 0 {
						time.Sleep(st.gap)
						synctest.Wait()
					}
				}
				if !st.other {
					for _, es := range endStatuses {
						if es == st.status {
							ended = true
						}
					}
				}
			}
		}
		// let everything that is still pending play out
		time.Sleep(30 * time.Minute)
		synctest.Wait()
		h.endAt = api.now()
		h.calls = api.snapshot()
		api.mu.Lock()
		h.subCount, h.unsubs, h.maxFlight = api.subCount, api.unsubs, api.maxFlight
		api.mu.Unlock()
		// I6: once forgotten, adding the channel again yields a fresh monitor
		closed := false
		for _, c := range h.calls {
			if c.kind == "close" {
				closed = true
			}
		}
		if !s.disabled && (ended || closed) {
			h.readdTried = true
			var x interface{ Shutdown() bool }
			if y := m.AddPushChannel(chid); y != nil {
				x = y
			}
			h.readdNonNil = x != nil
			if x != nil {
				x.Shutdown()
			}
		}
		if mc != nil {
			mc.Shutdown()
		}
		m.Shutdown()
		time.Sleep(time.Hour)
		synctest.Wait()
		all := api.snapshot()
		h.afterEnd = all[len(h.calls):]
	})
	return h
}

func isEnd(s datatransfer.Status) bool {
	for _, es := range endStatuses {
		if es == s {
			return true
		}
	}
	return false
}

// checkMon evaluates the invariants of C14 on a history. It returns a keyed failure or "".
func checkMon(s monScript, h monHistory) (key, msg string, classes []string) {
	failf := func(k, f string, a ...any) (string, string, []string) {
		return k, fmt.Sprintf(f, a...), classes
	}
	if s.disabled {
		// I7
		if !h.addNil || h.subCount != 0 || len(h.calls) != 0 {
			return failf("C14/disabled-acted", "monitoring disabled but Add returned non-nil=%v, %d subscriptions, %d API calls", !h.addNil, h.subCount, len(h.calls))
		}
		return "", "", []string{"disabled"}
	}
	if h.addNil {
		return failf("C14/add-returned-nil", "enabled monitor returned nil for a new channel")
	}
	var closes, connects []apiCall
	for _, c := range h.calls {
		switch c.kind {
		case "close":
			closes = append(closes, c)
		case "connect":
			connects = append(connects, c)
		}
	}
	// I4
	if len(closes) > 1 {
		return failf("C14/closed-twice", "channel closed with an error %d times (at %v and %v)", len(closes), closes[0].start, closes[1].start)
	}
	// I1: at most one connect/restart in flight, and no connect inside the back-off of a successful attempt
	if h.maxFlight > 1 {
		return failf("C14/overlapping-restart", "%d reconnect/restart calls in flight at once", h.maxFlight)
	}
	// shutdown instant of the monitored channel: first end-status event or the close
	shutAt := time.Duration(1<<62 - 1)
	for _, e := range h.events {
		if !e.other && isEnd(e.status) && e.at < shutAt {
			shutAt = e.at
		}
	}
	closeAt := time.Duration(1<<62 - 1)
	if len(closes) == 1 {
		closeAt = closes[0].start
	}
	deadAt := shutAt
	if closeAt < deadAt {
		deadAt = closeAt
	}
	// calls issued at or after the instant the monitor died can only be the
	// tail of an attempt or of a pending debounce timer: they run under the
	// monitor's cancelled context and must fail with it
	var calls []apiCall
	connects = nil
	for _, c := range h.calls {
		if c.kind == "close" {
			continue
		}
		if c.start > deadAt || (c.start == deadAt && errors.Is(c.err, context.Canceled)) {
			if !errors.Is(c.err, context.Canceled) {
				return failf("C14/acted-after-shutdown", "%s call at %v (after the monitor saw the channel ending / closed it at %v) was not made under the cancelled context: err=%v", c.kind, c.start, deadAt, c.err)
			}
			classes = append(classes, "cancelled_calls_after_shutdown")
			continue
		}
		calls = append(calls, c)
		if c.kind == "connect" {
			connects = append(connects, c)
		}
	}
	// attempts: connect [+ restart [+ back-off]]
	type attempt struct {
		start, end time.Duration
		ok         bool
	}
	var attempts []attempt
	for i := 0; i < len(calls); i++ {
		if calls[i].kind != "connect" {
			continue
		}
		a := attempt{start: calls[i].start, end: calls[i].end}
		if calls[i].err == nil {
			// the restart call follows immediately
			for j := i + 1; j < len(calls); j++ {
				if calls[j].kind == "restart" {
					a.end = calls[j].end
					if calls[j].err == nil {
						a.ok = true
						a.end += s.cfg.RestartBackoff
						if a.end > deadAt && deadAt >= calls[j].end {
							a.end = deadAt // back-off cut short by the shutdown
						}
					}
					break
				}
				if calls[j].kind == "connect" {
					break
				}
			}
		}
		if a.end > deadAt {
			a.end = deadAt
		}
		attempts = append(attempts, a)
	}
	for i := 1; i < len(attempts); i++ {
		if attempts[i].start < attempts[i-1].end {
			return failf("C14/overlapping-restart", "restart attempt at %v starts before the previous one (started %v) ended at %v", attempts[i].start, attempts[i-1].start, attempts[i-1].end)
		}
	}
	if len(attempts) > 0 {
		classes = append(classes, "restart_attempted")
	}
	// I3: connects since the last data event never exceed the bound
	var dataAt []time.Duration
	for _, e := range h.events {
		if !e.other && (e.code == datatransfer.DataSent || e.code == datatransfer.DataReceived) && !isEnd(e.status) && e.at <= deadAt {
			dataAt = append(dataAt, e.at)
		}
	}
	count := 0
	di := 0
	for _, c := range connects {
		for di < len(dataAt) && dataAt[di] <= c.start { // <=: a tie (zero debounce) may go either way
			count = 0
			di++
		}
		count++
		if uint32(count) > s.cfg.MaxConsecutiveRestarts {
			return failf("C14/restart-bound", "%d consecutive restart attempts without data progress (bound %d), latest at %v", count, s.cfg.MaxConsecutiveRestarts, c.start)
		}
		if uint32(count) == s.cfg.MaxConsecutiveRestarts {
			classes = append(classes, "bound_reached")
		}
	}
	if len(closes) == 1 && closes[0].start > shutAt {
		return failf("C14/closed-after-end", "channel closed with an error at %v although the monitor had seen it cleaning up / terminal at %v", closes[0].start, shutAt)
	}
	// I5: timers
	acceptAt := time.Duration(-1)
	if s.cfg.AcceptTimeout > 0 {
		acceptAt = h.addAt + s.cfg.AcceptTimeout
		for _, e := range h.events {
			if !e.other && e.code == datatransfer.Accept && !isEnd(e.status) && e.at < acceptAt {
				acceptAt = -1
				classes = append(classes, "accept_timer_cancelled")
				break
			}
		}
	}
	var expiries []time.Duration
	if acceptAt >= 0 {
		expiries = append(expiries, acceptAt)
	}
	if s.cfg.CompleteTimeout > 0 {
		for _, e := range h.events {
			if !e.other && e.code == datatransfer.FinishTransfer && !isEnd(e.status) {
				expiries = append(expiries, e.at+s.cfg.CompleteTimeout)
			}
		}
	}
	sort.Slice(expiries, func(i, j int) bool { return expiries[i] < expiries[j] })
	// restart-induced close instants: a failed call that exhausted the bound, or an attempt refused by the bound
	legit := func(at time.Duration) bool {
		for _, x := range expiries {
			if x == at {
				return true
			}
		}
		return false
	}
	if len(closes) == 1 {
		at := closes[0].start
		timer := strings.Contains(closes[0].msg, "timed out waiting")
		if timer {
			classes = append(classes, "closed_by_timeout")
			if !legit(at) {
				return failf("C14/timeout-instant", "closed by a timeout at %v, but the awaited-event deadlines are %v (AcceptTimeout=%v CompleteTimeout=%v)", at, expiries, s.cfg.AcceptTimeout, s.cfg.CompleteTimeout)
			}
			if strings.Contains(closes[0].msg, "Accept") && s.cfg.AcceptTimeout == 0 || strings.Contains(closes[0].msg, "Complete") && s.cfg.CompleteTimeout == 0 {
				return failf("C14/disabled-timeout-fired", "a disabled timeout fired: %s", closes[0].msg)
			}
		} else {
			classes = append(classes, "closed_by_restart_failure")
			// data progress resets the count: the give-up comes only when the
			// attempts since the last data event have reached the bound
			cnt := func(strict bool) int {
				n := 0
				for _, c := range connects {
					if c.start > at {
						break
					}
					n++
				}
				// attempts after the last data event that precedes the close
				last := time.Duration(-1)
				for _, d := range dataAt {
					if d < at || (!strict && d == at) {
						last = d
					}
				}
				n = 0
				for _, c := range connects {
					if c.start <= at && (c.start > last || (strict && c.start == last)) {
						n++
					}
				}
				return n
			}
			if a, b := cnt(true), cnt(false); uint32(a) != s.cfg.MaxConsecutiveRestarts && uint32(b) != s.cfg.MaxConsecutiveRestarts {
				return failf("C14/gave-up-before-bound", "closed with %q at %v after only %d attempt(s) since the last data progress (bound %d)", closes[0].msg, at, a, s.cfg.MaxConsecutiveRestarts)
			}
			// must coincide with the end of a failed call or the start of a refused attempt (after an attempt or a trigger)
			if len(connects) == 0 && uint32(0) < s.cfg.MaxConsecutiveRestarts {
				return failf("C14/close-without-cause", "closed with %q at %v without any restart attempt", closes[0].msg, at)
			}
		}
	}
	// every expiry that comes while the monitor is alive must close the channel
	for _, x := range expiries {
		if x < deadAt {
			return failf("C14/timeout-missed", "deadline %v passed with the monitor alive (ended/closed at %v) but the channel was not closed then", x, deadAt)
		}
		if x == deadAt {
			break
		}
	}
	// I2: restart requested during an attempt is performed once afterwards; no attempt without a trigger
	var errAt []time.Duration
	for _, e := range h.events {
		if !e.other && (e.code == datatransfer.SendDataError || e.code == datatransfer.ReceiveDataError) && !isEnd(e.status) && e.at <= deadAt {
			errAt = append(errAt, e.at)
		}
	}
	var triggers []time.Duration
	for i, at := range errAt {
		if i+1 < len(errAt) && errAt[i+1]-at < s.cfg.RestartDebounce {
			continue // debounced away by the next error
		}
		if i+1 < len(errAt) && errAt[i+1]-at == s.cfg.RestartDebounce {
			continue // tie: excluded by the residues, kept for safety
		}
		tr := at + s.cfg.RestartDebounce
		if tr <= deadAt {
			triggers = append(triggers, tr)
		}
	}
	for ai, a := range attempts {
		caused := false
		for _, tr := range triggers {
			if tr == a.start {
				caused = true
			}
		}
		if ai > 0 && attempts[ai-1].end == a.start {
			// directly behind the previous attempt: an immediate retry after a failed
			// one, or the single follow-up for a restart requested while the previous
			// restart (an attempt with its immediate retries) was running
			prev := attempts[ai-1]
			if !prev.ok {
				caused = true
			}
			chainStart := prev.start
			for j := ai - 1; j > 0 && !attempts[j-1].ok && attempts[j-1].end == attempts[j].start; j-- {
				chainStart = attempts[j-1].start
			}
			for _, tr := range triggers {
				if tr > chainStart && tr <= prev.end {
					caused = true
				}
			}
		}
		if !caused {
			return failf("C14/attempt-without-trigger", "restart attempt at %v has no cause: debounced triggers %v, previous attempt ended %v", a.start, triggers, func() any {
				if ai > 0 {
					return attempts[ai-1].end
				}
				return "-"
			}())
		}
	}
	for ai, a := range attempts {
		if !a.ok {
			continue
		}
		queued := false
		for _, tr := range triggers {
			if tr > a.start && tr < a.end {
				queued = true
			}
		}
		if queued && a.end < deadAt {
			classes = append(classes, "restart_queued_during_attempt")
			if ai+1 >= len(attempts) || attempts[ai+1].start != a.end {
				// the follow-up may have been refused by the bound: then the channel is closed at that instant
				if !(len(closes) == 1 && closes[0].start == a.end) {
					return failf("C14/queued-restart-lost", "a restart was requested at a trigger inside the attempt [%v,%v] but no attempt followed at %v", a.start, a.end, a.end)
				}
			}
		}
	}
	// a trigger outside any attempt starts an attempt right away (or closes on the bound)
	for _, tr := range triggers {
		if tr >= deadAt {
			continue // tie with the monitor's end: either order is allowed
		}
		inside := false
		for _, a := range attempts {
			if tr > a.start && tr < a.end {
				inside = true
			}
			if tr == a.start {
				inside = true
			}
		}
		if !inside && !(len(closes) == 1 && closes[0].start == tr) {
			return failf("C14/trigger-ignored", "debounced error trigger at %v started no restart attempt (attempts %v)", tr, attempts)
		}
	}
	// I6
	if shutAt < time.Duration(1<<62-1) || len(closes) == 1 {
		if h.unsubs < 1 {
			return failf("C14/not-unsubscribed", "monitor saw the channel ending but did not unsubscribe")
		}
		if h.readdTried && !h.readdNonNil {
			return failf("C14/not-forgotten", "channel ended but adding it again did not yield a fresh monitor")
		}
		classes = append(classes, "ended_and_forgotten")
	}
	for _, c := range h.afterEnd {
		if c.kind == "close" {
			return failf("C14/close-after-shutdown", "close at %v after the monitor was shut down", c.start)
		}
	}
	return "", "", classes
}

func describeMon(s monScript, h monHistory) map[string]any {
	var ev []string
	for _, e := range h.events {
		ev = append(ev, fmt.Sprintf("%v %s/%s other=%v", e.at, datatransfer.Events[e.code], datatransfer.Statuses[e.status], e.other))
	}
	var calls []string
	for _, c := range h.calls {
		calls = append(calls, fmt.Sprintf("%s [%v,%v] err=%v %s", c.kind, c.start, c.end, c.err, c.msg))
	}
	return map[string]any{"engine": "mon", "config": fmt.Sprintf("%+v", s.cfg), "disabled": s.disabled, "events": ev, "api_calls": calls}
}

func monProperty(t *testing.T, failures bool) {
	sp := stats.For("C14")
	sp.SetRule("mon (virtual time, testing/synctest): configs (accept / complete timeout 0 or up to 2 s, debounce, back-off, 1..5 consecutive restarts, or monitoring disabled) x scripts of 1..40 steps {advance, deliver event (error bursts, Accept, FinishTransfer, data, cleanup/terminal statuses, other channels), change latency / failure of ConnectTo and RestartDataTransferChannel}. Durations are multiples of 10 ms plus a 1..3 us residue so that timer instants never tie with event instants. Oracle: invariants over the stamped call log - <=1 attempt in flight, attempts caused by a debounced trigger or queued behind an attempt, queued restart performed once afterwards, connects since the last data event <= bound, <=1 close, timeouts fire exactly at add+AcceptTimeout / finish+CompleteTimeout iff alive and enabled, nothing after a cleanup/terminal status (unsubscribed, forgotten), disabled => nothing. Non-trivial: >=1 restart attempt or timer expiry; distinct by the call pattern")
	rapid.Check(t, func(rt *rapid.T) {
		s := drawMonScript(rt, failures)
		h := runMon(t, s)
		key, msg, classes := checkMon(s, h)
		if key != "" {
			d := describeMon(s, h)
			rt.Fatalf("VIOLATION-KEY=%s %s\nconfig: %v\nevents:\n  %s\napi calls:\n  %s", key, msg, d["config"], strings.Join(d["events"].([]string), "\n  "), strings.Join(d["api_calls"].([]string), "\n  "))
		}
		sp.Eval()
		seen := map[string]bool{}
		for _, c := range classes {
			if !seen[c] {
				seen[c] = true
				sp.Class(c)
			}
		}
		if len(h.calls) > 0 {
			var pat []string
			for _, c := range h.calls {
				pat = append(pat, fmt.Sprintf("%s:%v", c.kind, c.err != nil))
			}
			fp := stats.FP(strings.Join(pat, ","), s.cfg.MaxConsecutiveRestarts, failures)
			sp.Nontrivial(fp)
			if sp.WantSample() {
				sp.Sample(fp, describeMon(s, h))
			}
		}
	})
}

func TestC14_Mon(t *testing.T)           { monProperty(t, true) }
func TestC14_MonNoFailures(t *testing.T) { monProperty(t, false) }
