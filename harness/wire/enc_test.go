package wire

import (
	"bytes"
	"encoding/binary"
	"math"
	"sort"

	"github.com/ipld/go-ipld-prime/datamodel"
	cidlink "github.com/ipld/go-ipld-prime/linking/cid"
)

// A minimal DAG-CBOR encoder written for the harness (no go-ipld-prime codec,
// no go-data-transfer code): the schema oracle of C12.

type cborW struct{ bytes.Buffer }

func (w *cborW) head(major byte, n uint64) {
	switch {
	case n < 24:
		w.WriteByte(major<<5 | byte(n))
	case n <= math.MaxUint8:
		w.WriteByte(major<<5 | 24)
		w.WriteByte(byte(n))
	case n <= math.MaxUint16:
		w.WriteByte(major<<5 | 25)
		var b [2]byte
		binary.BigEndian.PutUint16(b[:], uint16(n))
		w.Write(b[:])
	case n <= math.MaxUint32:
		w.WriteByte(major<<5 | 26)
		var b [4]byte
		binary.BigEndian.PutUint32(b[:], uint32(n))
		w.Write(b[:])
	default:
		w.WriteByte(major<<5 | 27)
		var b [8]byte
		binary.BigEndian.PutUint64(b[:], n)
		w.Write(b[:])
	}
}

func (w *cborW) uint(n uint64) { w.head(0, n) }
func (w *cborW) int(n int64) {
	if n >= 0 {
		w.head(0, uint64(n))
	} else {
		w.head(1, uint64(-(n + 1)))
	}
}
func (w *cborW) text(s string) { w.head(3, uint64(len(s))); w.WriteString(s) }
func (w *cborW) bytesv(b []byte) {
	w.head(2, uint64(len(b)))
	w.Write(b)
}
func (w *cborW) boolean(b bool) {
	if b {
		w.WriteByte(0xf5)
	} else {
		w.WriteByte(0xf4)
	}
}
func (w *cborW) null() { w.WriteByte(0xf6) }
func (w *cborW) float(f float64) {
	w.WriteByte(0xfb)
	var b [8]byte
	binary.BigEndian.PutUint64(b[:], math.Float64bits(f))
	w.Write(b[:])
}
func (w *cborW) link(cidBytes []byte) {
	w.head(6, 42)
	w.head(2, uint64(len(cidBytes)+1))
	w.WriteByte(0)
	w.Write(cidBytes)
}

// canonical DAG-CBOR key order: shorter keys first, then bytewise
func sortKeys(keys []string) {
	sort.Slice(keys, func(i, j int) bool {
		if len(keys[i]) != len(keys[j]) {
			return len(keys[i]) < len(keys[j])
		}
		return keys[i] < keys[j]
	})
}

// node encodes an arbitrary IPLD value (nil / Null -> null).
func (w *cborW) node(n datamodel.Node) {
	if n == nil || n.IsNull() {
		w.null()
		return
	}
	switch n.Kind() {
	case datamodel.Kind_Map:
		type kv struct {
			k string
			v datamodel.Node
		}
		m := map[string]datamodel.Node{}
		var keys []string
		it := n.MapIterator()
		for !it.Done() {
			k, v, err := it.Next()
			if err != nil {
				panic(err)
			}
			ks, _ := k.AsString()
			m[ks] = v
			keys = append(keys, ks)
		}
		sortKeys(keys)
		w.head(5, uint64(len(keys)))
		for _, k := range keys {
			w.text(k)
			w.node(m[k])
		}
	case datamodel.Kind_List:
		w.head(4, uint64(n.Length()))
		it := n.ListIterator()
		for !it.Done() {
			_, v, err := it.Next()
			if err != nil {
				panic(err)
			}
			w.node(v)
		}
	case datamodel.Kind_Bool:
		b, _ := n.AsBool()
		w.boolean(b)
	case datamodel.Kind_Int:
		if un, ok := n.(datamodel.UintNode); ok {
			u, err := un.AsUint()
			if err == nil {
				w.uint(u)
				return
			}
		}
		i, _ := n.AsInt()
		w.int(i)
	case datamodel.Kind_Float:
		f, _ := n.AsFloat()
		w.float(f)
	case datamodel.Kind_String:
		s, _ := n.AsString()
		w.text(s)
	case datamodel.Kind_Bytes:
		b, _ := n.AsBytes()
		w.bytesv(b)
	case datamodel.Kind_Link:
		l, _ := n.AsLink()
		w.link(l.(cidlink.Link).Cid.Bytes())
	default:
		panic("unsupported kind")
	}
}

// field is one entry of a schema struct in map representation.
type field struct {
	key string
	put func(w *cborW)
}

// structMap writes a struct in map representation with the given order of keys
// (sorted canonically unless keepOrder is set).
func structMap(w *cborW, fields []field, keepOrder bool) {
	fs := append([]field{}, fields...)
	if !keepOrder {
		sort.Slice(fs, func(i, j int) bool {
			if len(fs[i].key) != len(fs[j].key) {
				return len(fs[i].key) < len(fs[j].key)
			}
			return fs[i].key < fs[j].key
		})
	}
	w.head(5, uint64(len(fs)))
	for _, f := range fs {
		w.text(f.key)
		f.put(w)
	}
}
