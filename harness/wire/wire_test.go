package wire

import (
	"bytes"
	"errors"
	"fmt"
	"os"
	"strings"
	"testing"

	"github.com/ipfs/go-cid"
	"github.com/ipfs/go-graphsync"
	"github.com/ipld/go-ipld-prime/codec/dagcbor"
	"github.com/ipld/go-ipld-prime/datamodel"
	"github.com/ipld/go-ipld-prime/node/basicnode"
	"github.com/libp2p/go-libp2p/core/peer"
	"pgregory.net/rapid"

	datatransfer "github.com/filecoin-project/go-data-transfer/v2"
	"github.com/filecoin-project/go-data-transfer/v2/message"
	"github.com/filecoin-project/go-data-transfer/v2/message/types"
	"github.com/filecoin-project/go-data-transfer/v2/transport/graphsync/extension"

	"verif/harness/gen"
	"verif/harness/stats"
)

func TestMain(m *testing.M) {
	code := m.Run()
	stats.Flush()
	os.Exit(code)
}

var ctors = []string{"NewRequest", "RestartRequest", "RestartExisting", "CancelRequest", "UpdateRequest", "VoucherRequest",
	"NewResponse", "RestartResponse", "VoucherResultResponse", "CompleteResponse", "UpdateResponse", "CancelResponse", "ValidationResultResponse"}

// mspec is a generated message description, independent of the implementation.
type mspec struct {
	ctor     string
	id       uint64
	pull     bool
	paused   bool
	accepted bool
	base     cid.Cid
	sel      datamodel.Node // nil = none
	v        datamodel.Node // nil / Null = none
	noVPtr   bool           // pass a nil *TypedVoucher
	typ      datatransfer.TypeIdentifier
	chid     datatransfer.ChannelID
	mtype    types.MessageType
	verr     bool
}

var interestingIDs = []uint64{0, 1, 23, 24, 255, 256, 1 << 31, 1<<32 - 1, 1 << 32, 1<<63 - 1, 1 << 63, 1<<64 - 1}

func drawSpec(t *rapid.T) mspec {
	var m mspec
	m.ctor = rapid.SampledFrom(ctors).Draw(t, "ctor")
	if rapid.Bool().Draw(t, "idConst") {
		m.id = rapid.SampledFrom(interestingIDs).Draw(t, "idc")
	} else {
		m.id = rapid.Uint64().Draw(t, "id")
	}
	m.pull = rapid.Bool().Draw(t, "pull")
	m.paused = rapid.Bool().Draw(t, "paused")
	m.accepted = rapid.Bool().Draw(t, "accepted")
	m.base = gen.Cid().Draw(t, "base")
	switch rapid.IntRange(0, 5).Draw(t, "selKind") {
	case 0:
		m.sel = nil
	case 1:
		m.sel = datamodel.Null
	default:
		m.sel = gen.Node(gen.NodeOpts{}).Draw(t, "sel")
	}
	switch rapid.IntRange(0, 6).Draw(t, "vKind") {
	case 0:
		m.v = nil
	case 1:
		m.v = datamodel.Null
	case 2:
		m.noVPtr = true
	default:
		m.v = gen.Node(gen.NodeOpts{}).Draw(t, "v")
	}
	switch rapid.IntRange(0, 3).Draw(t, "typKind") {
	case 0:
		m.typ = ""
	case 1:
		m.typ = datatransfer.TypeIdentifier(rapid.String().Draw(t, "typ"))
	default:
		m.typ = gen.TypeID().Draw(t, "typ2")
	}
	m.chid = datatransfer.ChannelID{
		Initiator: peer.ID(rapid.SliceOfN(rapid.Byte(), 0, 40).Draw(t, "initiator")),
		Responder: peer.ID(rapid.SliceOfN(rapid.Byte(), 0, 40).Draw(t, "responder")),
		ID:        datatransfer.TransferID(rapid.SampledFrom(interestingIDs).Draw(t, "chidID")),
	}
	m.mtype = types.MessageType(rapid.SampledFrom([]uint64{0, 1, 2, 3, 5, 6}).Draw(t, "mtype")) // the message types a response can have
	m.verr = rapid.Bool().Draw(t, "verr")
	return m
}

func (m mspec) tv() *datatransfer.TypedVoucher {
	if m.noVPtr {
		return nil
	}
	return &datatransfer.TypedVoucher{Type: m.typ, Voucher: m.v}
}

// build calls the library constructor.
func (m mspec) build() (datatransfer.Message, error) {
	id := datatransfer.TransferID(m.id)
	switch m.ctor {
	case "NewRequest":
		return message.NewRequest(id, false, m.pull, m.tv(), m.base, m.sel)
	case "RestartRequest":
		return message.NewRequest(id, true, m.pull, m.tv(), m.base, m.sel)
	case "RestartExisting":
		return message.RestartExistingChannelRequest(m.chid), nil
	case "CancelRequest":
		return message.CancelRequest(id), nil
	case "UpdateRequest":
		return message.UpdateRequest(id, m.paused), nil
	case "VoucherRequest":
		return message.VoucherRequest(id, m.tv())
	case "NewResponse":
		return message.NewResponse(id, m.accepted, m.paused, m.tv())
	case "RestartResponse":
		return message.RestartResponse(id, m.accepted, m.paused, m.tv())
	case "VoucherResultResponse":
		return message.VoucherResultResponse(id, m.accepted, m.paused, m.tv())
	case "CompleteResponse":
		return message.CompleteResponse(id, m.accepted, m.paused, m.tv())
	case "UpdateResponse":
		return message.UpdateResponse(id, m.paused), nil
	case "CancelResponse":
		return message.CancelResponse(id), nil
	case "ValidationResultResponse":
		var verr error
		if m.verr {
			verr = errors.New("validation failed")
		}
		return message.ValidationResultResponse(m.mtype, id, datatransfer.ValidationResult{Accepted: m.accepted, VoucherResult: m.tv()}, verr, m.paused)
	}
	panic("unknown constructor")
}

func isNone(n datamodel.Node) bool { return n == nil || n.IsNull() }

func nodeObs(n datamodel.Node, err error) string {
	if err != nil || isNone(n) {
		return "none"
	}
	return gen.EncHex(n)
}

// flat is the schema-level content of a message as the spec implies it.
type flat struct {
	isReq                  bool
	typ                    uint64
	id                     uint64
	pull, paused, accepted bool
	base                   *cid.Cid
	sel, v                 datamodel.Node
	vtyp                   string
	chid                   datatransfer.ChannelID
}

func (m mspec) flat() flat {
	f := flat{id: m.id}
	vt, vn := string(m.typ), m.v
	if m.noVPtr {
		vt, vn = "", nil
	}
	switch m.ctor {
	case "NewRequest", "RestartRequest":
		f.isReq, f.pull, f.base, f.sel, f.v, f.vtyp = true, m.pull, &m.base, m.sel, vn, vt
		f.typ = wtNewMessage
		if m.ctor == "RestartRequest" {
			f.typ = wtRestartMessage
		}
	case "RestartExisting":
		f.isReq, f.typ, f.id, f.chid = true, wtRestartExistingChannelRequestMessage, 0, m.chid
	case "CancelRequest":
		f.isReq, f.typ = true, wtCancelMessage
	case "UpdateRequest":
		f.isReq, f.typ, f.paused = true, wtUpdateMessage, m.paused
	case "VoucherRequest":
		f.isReq, f.typ, f.v, f.vtyp = true, wtVoucherMessage, vn, vt
	case "NewResponse":
		f.typ, f.accepted, f.paused, f.v, f.vtyp = wtNewMessage, m.accepted, m.paused, vn, vt
	case "RestartResponse":
		f.typ, f.accepted, f.paused, f.v, f.vtyp = wtRestartMessage, m.accepted, m.paused, vn, vt
	case "VoucherResultResponse":
		f.typ, f.accepted, f.paused, f.v, f.vtyp = wtVoucherResultMessage, m.accepted, m.paused, vn, vt
	case "CompleteResponse":
		f.typ, f.accepted, f.paused, f.v, f.vtyp = wtCompleteMessage, m.accepted, m.paused, vn, vt
	case "UpdateResponse":
		f.typ, f.paused = wtUpdateMessage, m.paused
	case "CancelResponse":
		f.typ = wtCancelMessage
	case "ValidationResultResponse":
		f.typ, f.accepted, f.paused, f.v, f.vtyp = uint64(m.mtype), m.accepted && !m.verr, m.paused, vn, vt
	}
	return f
}

// message type numbers as deployed peers know them (append-only numbering);
// deliberately literal, not taken from the package under test
const (
	wtNewMessage                           uint64 = 0
	wtUpdateMessage                        uint64 = 1
	wtCancelMessage                        uint64 = 2
	wtCompleteMessage                      uint64 = 3
	wtVoucherMessage                       uint64 = 4
	wtVoucherResultMessage                 uint64 = 5
	wtRestartMessage                       uint64 = 6
	wtRestartExistingChannelRequestMessage uint64 = 7
)

// kinds per the statement: exactly one per message.
func reqKind(typ uint64) string {
	switch types.MessageType(typ) {
	case types.MessageType(wtNewMessage):
		return "new"
	case types.MessageType(wtRestartMessage):
		return "restart"
	case types.MessageType(wtUpdateMessage):
		return "update"
	case types.MessageType(wtCancelMessage):
		return "cancel"
	case types.MessageType(wtVoucherMessage):
		return "voucher"
	case types.MessageType(wtRestartExistingChannelRequestMessage):
		return "restart-existing"
	}
	return "?"
}

func respKind(typ uint64) string {
	switch types.MessageType(typ) {
	case types.MessageType(wtNewMessage):
		return "new"
	case types.MessageType(wtRestartMessage):
		return "restart"
	case types.MessageType(wtUpdateMessage):
		return "update"
	case types.MessageType(wtCancelMessage):
		return "cancel"
	case types.MessageType(wtCompleteMessage):
		return "complete"
	case types.MessageType(wtVoucherResultMessage):
		return "voucher-result"
	}
	return "?"
}

// wantObs renders the observables the spec implies.
func (f flat) wantObs() string {
	if f.isReq {
		base := "undef"
		if f.base != nil {
			base = f.base.String()
		}
		rc := "-"
		if reqKind(f.typ) == "restart-existing" {
			rc = fmt.Sprintf("%x|%x|%d", string(f.chid.Initiator), string(f.chid.Responder), f.chid.ID)
		}
		return fmt.Sprintf("REQ kind=[%s] id=%d pull=%v paused=%v base=%s sel=%s v=%s vt=%q rc=%s", reqKind(f.typ), f.id, f.pull, f.paused, base, nodeObs(f.sel, nil), nodeObs(f.v, nil), f.vtyp, rc)
	}
	return fmt.Sprintf("RESP kind=[%s] id=%d accepted=%v paused=%v vr=%s vt=%q empty=%v", respKind(f.typ), f.id, f.accepted, f.paused, nodeObs(f.v, nil), f.vtyp, f.vtyp == "")
}

// obs renders the observables of a library message through its accessors.
func obs(msg datatransfer.Message) string {
	if msg.IsRequest() {
		r := msg.(datatransfer.Request)
		var kinds []string
		if r.IsNew() {
			kinds = append(kinds, "new")
		}
		if r.IsRestart() {
			kinds = append(kinds, "restart")
		}
		if r.IsUpdate() {
			kinds = append(kinds, "update")
		}
		if r.IsCancel() {
			kinds = append(kinds, "cancel")
		}
		if r.IsVoucher() && !r.IsNew() {
			kinds = append(kinds, "voucher")
		}
		if r.IsRestartExistingChannelRequest() {
			kinds = append(kinds, "restart-existing")
		}
		base := "undef"
		if r.BaseCid() != cid.Undef {
			base = r.BaseCid().String()
		}
		rc := "-"
		if c, err := r.RestartChannelId(); err == nil {
			rc = fmt.Sprintf("%x|%x|%d", string(c.Initiator), string(c.Responder), c.ID)
		}
		sel, serr := r.Selector()
		v, verr := r.Voucher()
		return fmt.Sprintf("REQ kind=[%s] id=%d pull=%v paused=%v base=%s sel=%s v=%s vt=%q rc=%s", strings.Join(kinds, ","), uint64(r.TransferID()), r.IsPull(), r.IsPaused(), base, nodeObs(sel, serr), nodeObs(v, verr), string(r.VoucherType()), rc)
	}
	r := msg.(datatransfer.Response)
	var kinds []string
	if r.IsNew() {
		kinds = append(kinds, "new")
	}
	if r.IsRestart() {
		kinds = append(kinds, "restart")
	}
	if r.IsUpdate() {
		kinds = append(kinds, "update")
	}
	if r.IsCancel() {
		kinds = append(kinds, "cancel")
	}
	if r.IsComplete() {
		kinds = append(kinds, "complete")
	}
	if r.IsValidationResult() && !r.IsNew() && !r.IsRestart() && !r.IsComplete() {
		kinds = append(kinds, "voucher-result")
	}
	vr, verr := r.VoucherResult()
	return fmt.Sprintf("RESP kind=[%s] id=%d accepted=%v paused=%v vr=%s vt=%q empty=%v", strings.Join(kinds, ","), uint64(r.TransferID()), r.Accepted(), r.IsPaused(), nodeObs(vr, verr), string(r.VoucherResultType()), r.EmptyVoucherResult())
}

// schemaBytes is the independent encoder: the DAG-CBOR map the published schema lays down.
func (f flat) schemaBytes(perm []int, keepOrder bool) []byte {
	var w cborW
	pick := func(fs []field) []field {
		if perm == nil {
			return fs
		}
		out := make([]field, 0, len(fs))
		used := map[int]bool{}
		for _, p := range perm {
			i := p % len(fs)
			for used[i] {
				i = (i + 1) % len(fs)
			}
			used[i] = true
			out = append(out, fs[i])
			if len(out) == len(fs) {
				break
			}
		}
		for i := range fs {
			if !used[i] {
				out = append(out, fs[i])
			}
		}
		return out
	}
	var body func(w *cborW)
	if f.isReq {
		fs := []field{
			{"BCid", func(w *cborW) {
				if f.base == nil {
					w.null()
				} else {
					w.link(f.base.Bytes())
				}
			}},
			{"Type", func(w *cborW) { w.uint(f.typ) }},
			{"Paus", func(w *cborW) { w.boolean(f.paused) }},
			{"Part", func(w *cborW) { w.boolean(false) }},
			{"Pull", func(w *cborW) { w.boolean(f.pull) }},
			{"Stor", func(w *cborW) { w.node(f.sel) }},
			{"Vouch", func(w *cborW) { w.node(f.v) }},
			{"VTyp", func(w *cborW) { w.text(f.vtyp) }},
			{"XferID", func(w *cborW) { w.uint(f.id) }},
			{"RestartChannel", func(w *cborW) {
				w.head(4, 3)
				w.text(string(f.chid.Initiator))
				w.text(string(f.chid.Responder))
				w.uint(uint64(f.chid.ID))
			}},
		}
		body = func(w *cborW) { structMap(w, pick(fs), keepOrder) }
	} else {
		fs := []field{
			{"Type", func(w *cborW) { w.uint(f.typ) }},
			{"Acpt", func(w *cborW) { w.boolean(f.accepted) }},
			{"Paus", func(w *cborW) { w.boolean(f.paused) }},
			{"XferID", func(w *cborW) { w.uint(f.id) }},
			{"VRes", func(w *cborW) { w.node(f.v) }},
			{"VTyp", func(w *cborW) { w.text(f.vtyp) }},
		}
		body = func(w *cborW) { structMap(w, pick(fs), keepOrder) }
	}
	top := []field{
		{"IsRq", func(w *cborW) { w.boolean(f.isReq) }},
		{"Request", func(w *cborW) {
			if f.isReq {
				body(w)
			} else {
				w.null()
			}
		}},
		{"Response", func(w *cborW) {
			if f.isReq {
				w.null()
			} else {
				body(w)
			}
		}},
	}
	structMap(&w, pick(top), keepOrder)
	return w.Bytes()
}

// gsExt is a GsExtended double carrying extension data.
type gsExt map[graphsync.ExtensionName]datamodel.Node

func (g gsExt) Extension(name graphsync.ExtensionName) (datamodel.Node, bool) {
	n, ok := g[name]
	return n, ok
}

func fail(t *rapid.T, key, format string, args ...any) {
	t.Fatalf("VIOLATION-KEY=%s %s", key, fmt.Sprintf(format, args...))
}

// safely runs f and reports a panic as an error.
func safely(f func()) (err error) {
	defer func() {
		if r := recover(); r != nil {
			err = fmt.Errorf("panic: %v", r)
		}
	}()
	f()
	return nil
}

var extNames = []graphsync.ExtensionName{extension.ExtensionIncomingRequest1_1, extension.ExtensionOutgoingBlock1_1, extension.ExtensionDataTransfer1_1}

// TestC12_RoundTrip: every constructor over the full value space, three paths, schema bytes, key order, kinds.
func TestC12_RoundTrip(t *testing.T) {
	sp := stats.For("C12")
	sp.SetRule("wire: all 13 constructors with transfer ids over uint64 (biased to 0,1,2^31,2^32,2^63-1,2^63,2^64-1), CIDs v0/v1 (several codecs/hashes incl. identity), selectors / vouchers = arbitrary IPLD values incl. null / nil pointer, type identifiers = arbitrary strings incl. empty / non-ASCII, peer ids = arbitrary byte strings. Oracles: observables implied by the spec == observables after ToNet/FromNet, ToIPLD/FromIPLD (direct and via a DAG-CBOR trip), extension.ToExtensionData/GetTransferData; ToNet bytes == bytes of an independent schema encoder written for the harness; any permutation of map keys decodes to the same message; exactly one kind; Accepted == (err == nil && result.Accepted). Byte / node mutations and native fuzzing for decode totality. Non-trivial: the message carries a non-null voucher or an id >= 2^32 (round trips); the input decodes at least to the outer map (totality); distinct by (constructor, id class, voucher kind) resp. (mutation, decode stage)")
	rapid.Check(t, func(t *rapid.T) {
		m := drawSpec(t)
		msg, err := m.build()
		if err != nil {
			t.Fatalf("HARNESS constructor %s: %v", m.ctor, err)
		}
		f := m.flat()
		want := f.wantObs()
		if got := obs(msg); got != want {
			fail(t, "C12/constructor-observables", "%s: constructed message shows\n %s\nspec implies\n %s", m.ctor, got, want)
		}
		if strings.Count(want, ",") != 0 && strings.Contains(want[:strings.Index(want, "]")], ",") {
			fail(t, "C12/not-one-kind", "%s", want)
		}
		// path 1: network form
		var buf bytes.Buffer
		if err := msg.ToNet(&buf); err != nil {
			fail(t, "C12/encode-error", "%s ToNet: %v", m.ctor, err)
		}
		wire := buf.Bytes()
		back, err := message.FromNet(bytes.NewReader(wire))
		if err != nil {
			fail(t, "C12/net-roundtrip-error", "%s FromNet(ToNet): %v", m.ctor, err)
		}
		if got := obs(back); got != want {
			fail(t, "C12/net-roundtrip", "%s after ToNet/FromNet:\n %s\nwant\n %s", m.ctor, got, want)
		}
		// schema conformance: exactly the bytes of the independent encoder
		if sb := f.schemaBytes(nil, false); !bytes.Equal(sb, wire) {
			fail(t, "C12/schema-bytes", "%s: ToNet bytes differ from the schema encoding\n lib    %x\n schema %x", m.ctor, wire, sb)
		}
		// metamorphic: permuted key order decodes to the same message
		perm := rapid.SliceOfN(rapid.IntRange(0, 9), 3, 10).Draw(t, "perm")
		pb := f.schemaBytes(perm, true)
		back2, err := message.FromNet(bytes.NewReader(pb))
		if err != nil {
			fail(t, "C12/key-order-error", "%s: encoding with permuted map keys rejected: %v (%x)", m.ctor, err, pb)
		}
		if got := obs(back2); got != want {
			fail(t, "C12/key-order", "%s with permuted keys:\n %s\nwant\n %s", m.ctor, got, want)
		}
		// path 2: IPLD form, directly and through a DAG-CBOR trip (as graphsync does)
		nd := msg.ToIPLD()
		back3, err := message.FromIPLD(nd)
		if err != nil {
			fail(t, "C12/ipld-roundtrip-error", "%s FromIPLD(ToIPLD): %v", m.ctor, err)
		}
		if got := obs(back3); got != want {
			fail(t, "C12/ipld-roundtrip", "%s after ToIPLD/FromIPLD:\n %s\nwant\n %s", m.ctor, got, want)
		}
		var nb bytes.Buffer
		if err := dagcbor.Encode(nd, &nb); err != nil {
			fail(t, "C12/encode-error", "%s dagcbor(ToIPLD): %v", m.ctor, err)
		}
		if !bytes.Equal(nb.Bytes(), wire) {
			fail(t, "C12/ipld-vs-net-bytes", "%s: the IPLD form encodes to different bytes than ToNet", m.ctor)
		}
		b := basicnode.Prototype.Any.NewBuilder()
		if err := dagcbor.Decode(b, bytes.NewReader(nb.Bytes())); err != nil {
			t.Fatalf("HARNESS generic decode: %v", err)
		}
		back4, err := message.FromIPLD(b.Build())
		if err != nil {
			fail(t, "C12/ipld-roundtrip-error", "%s FromIPLD(generic node): %v", m.ctor, err)
		}
		if got := obs(back4); got != want {
			fail(t, "C12/ipld-roundtrip", "%s after ToIPLD/dag-cbor/FromIPLD:\n %s\nwant\n %s", m.ctor, got, want)
		}
		// path 3: graphsync extension
		exts, err := extension.ToExtensionData(msg, extNames)
		if err != nil || len(exts) != len(extNames) {
			fail(t, "C12/extension-error", "%s ToExtensionData: %v (%d)", m.ctor, err, len(exts))
		}
		pickExt := exts[rapid.IntRange(0, len(exts)-1).Draw(t, "ext")]
		back5, err := extension.GetTransferData(gsExt{pickExt.Name: pickExt.Data}, extNames)
		if err != nil || back5 == nil {
			fail(t, "C12/extension-roundtrip-error", "%s GetTransferData: %v", m.ctor, err)
		}
		if got := obs(back5); got != want {
			fail(t, "C12/extension-roundtrip", "%s after the extension path:\n %s\nwant\n %s", m.ctor, got, want)
		}
		none, err := extension.GetTransferData(gsExt{}, extNames)
		if none != nil || err != nil {
			fail(t, "C12/extension-absent", "absent extension gave %v, %v", none, err)
		}
		sp.Eval()
		idClass := "small"
		if f.id >= 1<<32 {
			idClass = "ge2^32"
		}
		if f.id >= 1<<63 {
			idClass = "ge2^63"
		}
		vk := "none"
		if !isNone(f.v) {
			vk = f.v.Kind().String()
		}
		if !isNone(f.v) || f.id >= 1<<32 {
			fp := stats.FP(m.ctor, idClass, vk, f.vtyp == "")
			sp.Nontrivial(fp)
			sp.Sample(fp, map[string]any{"constructor": m.ctor, "observables": want, "bytes_hex": fmt.Sprintf("%x", wire)})
		}
		sp.Class("ctor_" + m.ctor)
		sp.Class("id_" + idClass)
	})
}

// variantBytes builds structurally hostile encodings from a valid message.
func (f flat) variantBytes(variant string) []byte {
	var w cborW
	reqBody := func(w *cborW, drop string, retype string) {
		fs := []field{
			{"BCid", func(w *cborW) {
				if f.base == nil {
					w.null()
				} else {
					w.link(f.base.Bytes())
				}
			}},
			{"Type", func(w *cborW) { w.uint(f.typ) }},
			{"Paus", func(w *cborW) { w.boolean(f.paused) }},
			{"Part", func(w *cborW) { w.boolean(false) }},
			{"Pull", func(w *cborW) { w.boolean(f.pull) }},
			{"Stor", func(w *cborW) { w.node(f.sel) }},
			{"Vouch", func(w *cborW) { w.node(f.v) }},
			{"VTyp", func(w *cborW) { w.text(f.vtyp) }},
			{"XferID", func(w *cborW) { w.uint(f.id) }},
			{"RestartChannel", func(w *cborW) {
				w.head(4, 3)
				w.text(string(f.chid.Initiator))
				w.text(string(f.chid.Responder))
				w.uint(uint64(f.chid.ID))
			}},
		}
		var out []field
		for _, x := range fs {
			if x.key == drop {
				continue
			}
			if x.key == retype {
				x.put = func(w *cborW) { w.text("retyped") }
			}
			out = append(out, x)
		}
		structMap(w, out, false)
	}
	respBody := func(w *cborW, drop string, retype string) {
		fs := []field{
			{"Type", func(w *cborW) { w.uint(f.typ) }},
			{"Acpt", func(w *cborW) { w.boolean(f.accepted) }},
			{"Paus", func(w *cborW) { w.boolean(f.paused) }},
			{"XferID", func(w *cborW) { w.uint(f.id) }},
			{"VRes", func(w *cborW) { w.node(f.v) }},
			{"VTyp", func(w *cborW) { w.text(f.vtyp) }},
		}
		var out []field
		for _, x := range fs {
			if x.key == drop {
				continue
			}
			if x.key == retype {
				x.put = func(w *cborW) { w.head(4, 0) }
			}
			out = append(out, x)
		}
		structMap(w, out, false)
	}
	isRq := f.isReq
	req := func(w *cborW) { reqBody(w, "", "") }
	resp := func(w *cborW) { respBody(w, "", "") }
	null := func(w *cborW) { w.null() }
	rq, rs := null, null
	if f.isReq {
		rq = req
	} else {
		rs = resp
	}
	switch variant {
	case "both-null":
		rq, rs = null, null
	case "both-present":
		rq, rs = req, resp
	case "isrq-flipped":
		isRq = !isRq
	case "swapped-bodies":
		rq, rs = rs, rq
		if f.isReq {
			rs = req
		} else {
			rq = resp
		}
	case "field-dropped":
		rq = func(w *cborW) { reqBody(w, "XferID", "") }
		rs = func(w *cborW) { respBody(w, "XferID", "") }
		if f.isReq {
			rs = null
		} else {
			rq = null
		}
	case "field-retyped":
		rq = func(w *cborW) { reqBody(w, "", "Type") }
		rs = func(w *cborW) { respBody(w, "", "Type") }
		if f.isReq {
			rs = null
		} else {
			rq = null
		}
	case "body-not-map":
		rq = func(w *cborW) { w.uint(7) }
		rs = func(w *cborW) { w.text("x") }
	case "isrq-missing":
		structMap(&w, []field{{"Request", rq}, {"Response", rs}}, false)
		return w.Bytes()
	case "request-missing":
		structMap(&w, []field{{"IsRq", func(w *cborW) { w.boolean(isRq) }}, {"Response", rs}}, false)
		return w.Bytes()
	case "response-missing":
		structMap(&w, []field{{"IsRq", func(w *cborW) { w.boolean(isRq) }}, {"Request", rq}}, false)
		return w.Bytes()
	case "extra-key":
		structMap(&w, []field{{"IsRq", func(w *cborW) { w.boolean(isRq) }}, {"Request", rq}, {"Response", rs}, {"Zzz", null}}, false)
		return w.Bytes()
	}
	structMap(&w, []field{{"IsRq", func(w *cborW) { w.boolean(isRq) }}, {"Request", rq}, {"Response", rs}}, false)
	return w.Bytes()
}

var variants = []string{"valid", "both-null", "both-present", "isrq-flipped", "swapped-bodies", "field-dropped", "field-retyped", "body-not-map", "isrq-missing", "request-missing", "response-missing", "extra-key"}

// checkDecoded asserts the totality clause on one decoder result.
func checkDecoded(fatal func(key, format string, args ...any), what string, msg datatransfer.Message, err error, perr error, input []byte) string {
	if perr != nil {
		fatal("C12/decode-panic", "%s panicked on %x: %v", what, input, perr)
	}
	if err != nil {
		return "rejected"
	}
	if msg == nil {
		fatal("C12/nil-message", "%s returned neither an error nor a message for %x", what, input)
	}
	if aerr := safely(func() { _ = obs(msg) }); aerr != nil {
		fatal("C12/missing-body", "%s accepted %x but the message's accessors fail: %v", what, input, aerr)
	}
	return "accepted"
}

// decodeBoth feeds bytes to FromNet and (when they are DAG-CBOR) the node to FromIPLD.
func decodeBoth(fatal func(key, format string, args ...any), input []byte) (stage string) {
	var msg datatransfer.Message
	var err error
	perr := safely(func() { msg, err = message.FromNet(bytes.NewReader(input)) })
	res := checkDecoded(fatal, "FromNet", msg, err, perr, input)
	stage = "not-cbor"
	if len(input) > 1<<16 {
		return stage
	}
	nb := basicnode.Prototype.Any.NewBuilder()
	if derr := safely(func() { err = dagcbor.Decode(nb, bytes.NewReader(input)) }); derr != nil || err != nil {
		return stage + "/" + res
	}
	nd := nb.Build()
	stage = "cbor-" + nd.Kind().String()
	var msg2 datatransfer.Message
	perr = safely(func() { msg2, err = message.FromIPLD(nd) })
	res2 := checkDecoded(fatal, "FromIPLD", msg2, err, perr, input)
	if res == "accepted" && res2 == "accepted" && obs(msg) != obs(msg2) {
		fatal("C12/decoders-disagree", "FromNet and FromIPLD decode %x differently:\n %s\n %s", input, obs(msg), obs(msg2))
	}
	return stage + "/" + res + "/" + res2
}

// TestC12_Hostile: structured mutations of valid encodings and arbitrary nodes.
func TestC12_Hostile(t *testing.T) {
	sp := stats.For("C12")
	rapid.Check(t, func(t *rapid.T) {
		fatal := func(key, format string, args ...any) { fail(t, key, format, args...) }
		m := drawSpec(t)
		f := m.flat()
		variant := rapid.SampledFrom(variants).Draw(t, "variant")
		input := f.variantBytes(variant)
		mutation := rapid.SampledFrom([]string{"none", "none", "truncate", "bitflip", "setbyte", "insert", "key-rename", "arbitrary-node", "random-bytes"}).Draw(t, "mutation")
		switch mutation {
		case "truncate":
			input = input[:rapid.IntRange(0, len(input)).Draw(t, "cut")]
		case "bitflip":
			if len(input) > 0 {
				i := rapid.IntRange(0, len(input)-1).Draw(t, "at")
				input = append([]byte{}, input...)
				input[i] ^= 1 << uint(rapid.IntRange(0, 7).Draw(t, "bit"))
			}
		case "setbyte":
			if len(input) > 0 {
				i := rapid.IntRange(0, len(input)-1).Draw(t, "at")
				input = append([]byte{}, input...)
				input[i] = rapid.SampledFrom([]byte{0x00, 0x1b, 0x3b, 0x5f, 0x7f, 0x9f, 0xbf, 0xf6, 0xf7, 0xfb, 0xff, 0xd8, 0xa0, 0x80}).Draw(t, "val")
			}
		case "insert":
			i := rapid.IntRange(0, len(input)).Draw(t, "at")
			ins := rapid.SliceOfN(rapid.Byte(), 1, 6).Draw(t, "ins")
			input = append(append(append([]byte{}, input[:i]...), ins...), input[i:]...)
		case "key-rename":
			k := rapid.SampledFrom([]string{"XferID", "IsRq", "Type", "Request", "Response", "VTyp", "BCid"}).Draw(t, "key")
			input = bytes.Replace(input, []byte(k), []byte(strings.ToLower(k)), 1)
		case "arbitrary-node":
			var w cborW
			w.node(gen.Node(gen.NodeOpts{}).Draw(t, "node"))
			input = w.Bytes()
		case "random-bytes":
			input = rapid.SliceOfN(rapid.Byte(), 0, 64).Draw(t, "bytes")
		}
		stage := decodeBoth(fatal, input)
		sp.Eval()
		sp.Class("stage_" + stage)
		if strings.HasPrefix(stage, "cbor-map") {
			sp.Nontrivial(stats.FP("hostile", variant, mutation, stage))
		}
		// both bodies missing must never be accepted
		if variant == "both-null" && mutation == "none" && strings.Contains(stage, "accepted") {
			fail(t, "C12/missing-body", "a message without any body was accepted")
		}
	})
}

func seedCorpus() [][]byte {
	var out [][]byte
	base := cid.NewCidV1(cid.Raw, []byte{0x12, 0x20, 1, 2, 3, 4, 5, 6, 7, 8, 9, 10, 11, 12, 13, 14, 15, 16, 17, 18, 19, 20, 21, 22, 23, 24, 25, 26, 27, 28, 29, 30, 31, 32})
	for _, c := range ctors {
		m := mspec{ctor: c, id: 1 << 40, pull: true, paused: true, accepted: true, base: base, sel: basicnode.NewString("s"), v: basicnode.NewInt(5), typ: "T", chid: datatransfer.ChannelID{Initiator: "a", Responder: "b", ID: 3}, mtype: types.CompleteMessage}
		f := m.flat()
		for _, v := range variants {
			out = append(out, f.variantBytes(v))
		}
	}
	return out
}

// FuzzFromNet: coverage-guided byte-level fuzzing of both decoders with the
// totality oracle inside the target.
func FuzzFromNet(f *testing.F) {
	for _, s := range seedCorpus() {
		f.Add(s)
	}
	f.Fuzz(func(t *testing.T, input []byte) {
		if len(input) > 4096 {
			return
		}
		// a declared container length far beyond the input only exercises the generic decoder's allocator
		fatal := func(key, format string, args ...any) {
			t.Fatalf("VIOLATION-KEY=%s %s", key, fmt.Sprintf(format, args...))
		}
		var msg datatransfer.Message
		var err error
		perr := safely(func() { msg, err = message.FromNet(bytes.NewReader(input)) })
		checkDecoded(fatal, "FromNet", msg, err, perr, input)
	})
}

// TestC12_Seeds replays the seed corpus through both decoders (runs in the quick tier).
func TestC12_Seeds(t *testing.T) {
	sp := stats.For("C12")
	for _, s := range seedCorpus() {
		stage := decodeBoth(func(key, format string, args ...any) {
			t.Fatalf("VIOLATION-KEY=%s %s", key, fmt.Sprintf(format, args...))
		}, s)
		sp.Eval()
		sp.Class("seed_stage_" + stage)
	}
}
