package cborw

import (
	"bytes"
	"encoding/binary"
	"math"
	"sort"

	"github.com/ipld/go-ipld-prime/datamodel"
	cidlink "github.com/ipld/go-ipld-prime/linking/cid"
	"github.com/ipld/go-ipld-prime/schema"
)

// A minimal DAG-CBOR encoder written for the harness (no go-ipld-prime codec,
// no go-data-transfer code): the schema oracle of C12.

type W struct{ bytes.Buffer }

func (w *W) Head(major byte, n uint64) {
	switch {
	case n < 24:
		w.WriteByte(major<<5 | byte(n))
	case n <= math.MaxUint8:
		w.WriteByte(major<<5 | 24)
		w.WriteByte(byte(n))
	case n <= math.MaxUint16:
		w.WriteByte(major<<5 | 25)
		var b [2]byte
		binary.BigEndian.PutUint16(b[:], uint16(n))
		w.Write(b[:])
	case n <= math.MaxUint32:
		w.WriteByte(major<<5 | 26)
		var b [4]byte
		binary.BigEndian.PutUint32(b[:], uint32(n))
		w.Write(b[:])
	default:
		w.WriteByte(major<<5 | 27)
		var b [8]byte
		binary.BigEndian.PutUint64(b[:], n)
		w.Write(b[:])
	}
}

func (w *W) Uint(n uint64) { w.Head(0, n) }
func (w *W) Int(n int64) {
	if n >= 0 {
		w.Head(0, uint64(n))
	} else {
		w.Head(1, uint64(-(n + 1)))
	}
}
func (w *W) Text(s string) { w.Head(3, uint64(len(s))); w.WriteString(s) }
func (w *W) BytesV(b []byte) {
	w.Head(2, uint64(len(b)))
	w.Write(b)
}
func (w *W) Bool(b bool) {
	if b {
		w.WriteByte(0xf5)
	} else {
		w.WriteByte(0xf4)
	}
}
func (w *W) Null() { w.WriteByte(0xf6) }
func (w *W) Float(f float64) {
	w.WriteByte(0xfb)
	var b [8]byte
	binary.BigEndian.PutUint64(b[:], math.Float64bits(f))
	w.Write(b[:])
}
func (w *W) Link(cidBytes []byte) {
	w.Head(6, 42)
	w.Head(2, uint64(len(cidBytes)+1))
	w.WriteByte(0)
	w.Write(cidBytes)
}

// canonical DAG-CBOR key order: shorter keys first, then bytewise
func sortKeys(keys []string) {
	sort.Slice(keys, func(i, j int) bool {
		if len(keys[i]) != len(keys[j]) {
			return len(keys[i]) < len(keys[j])
		}
		return keys[i] < keys[j]
	})
}

// node encodes an arbitrary IPLD value (nil / Null -> null).
func (w *W) Node(n datamodel.Node) {
	if n == nil || n.IsNull() {
		w.Null()
		return
	}
	if tn, ok := n.(schema.TypedNode); ok {
		// a schema-typed value is stored / sent in its representation form
		n = tn.Representation()
	}
	switch n.Kind() {
	case datamodel.Kind_Map:
		type kv struct {
			k string
			v datamodel.Node
		}
		m := map[string]datamodel.Node{}
		var keys []string
		it := n.MapIterator()
		for !it.Done() {
			k, v, err := it.Next()
			if err != nil {
				panic(err)
			}
			ks, _ := k.AsString()
			m[ks] = v
			keys = append(keys, ks)
		}
		sortKeys(keys)
		w.Head(5, uint64(len(keys)))
		for _, k := range keys {
			w.Text(k)
			w.Node(m[k])
		}
	case datamodel.Kind_List:
		w.Head(4, uint64(n.Length()))
		it := n.ListIterator()
		for !it.Done() {
			_, v, err := it.Next()
			if err != nil {
				panic(err)
			}
			w.Node(v)
		}
	case datamodel.Kind_Bool:
		b, _ := n.AsBool()
		w.Bool(b)
	case datamodel.Kind_Int:
		if un, ok := n.(datamodel.UintNode); ok {
			u, err := un.AsUint()
			if err == nil {
				w.Uint(u)
				return
			}
		}
		i, _ := n.AsInt()
		w.Int(i)
	case datamodel.Kind_Float:
		f, _ := n.AsFloat()
		w.Float(f)
	case datamodel.Kind_String:
		s, _ := n.AsString()
		w.Text(s)
	case datamodel.Kind_Bytes:
		b, _ := n.AsBytes()
		w.BytesV(b)
	case datamodel.Kind_Link:
		l, _ := n.AsLink()
		w.Link(l.(cidlink.Link).Cid.Bytes())
	default:
		panic("unsupported kind")
	}
}

// field is one entry of a schema struct in map representation.
type Field struct {
	Key string
	Put func(w *W)
}

// structMap writes a struct in map representation with the given order of keys
// (sorted canonically unless keepOrder is set).
func StructMap(w *W, fields []Field, keepOrder bool) {
	fs := append([]Field{}, fields...)
	if !keepOrder {
		sort.Slice(fs, func(i, j int) bool {
			if len(fs[i].Key) != len(fs[j].Key) {
				return len(fs[i].Key) < len(fs[j].Key)
			}
			return fs[i].Key < fs[j].Key
		})
	}
	w.Head(5, uint64(len(fs)))
	for _, f := range fs {
		w.Text(f.Key)
		f.Put(w)
	}
}
