// Package gen holds the rapid generators shared by the engines.
package gen

import (
	"bytes"
	"fmt"
	"math"
	"sort"

	"github.com/ipfs/go-cid"
	ipld "github.com/ipld/go-ipld-prime"
	"github.com/ipld/go-ipld-prime/codec/dagcbor"
	"github.com/ipld/go-ipld-prime/datamodel"
	cidlink "github.com/ipld/go-ipld-prime/linking/cid"
	"github.com/ipld/go-ipld-prime/node/basicnode"
	"github.com/ipld/go-ipld-prime/node/bindnode"
	"github.com/ipld/go-ipld-prime/schema"
	"github.com/libp2p/go-libp2p/core/peer"
	mh "github.com/multiformats/go-multihash"
	"pgregory.net/rapid"

	datatransfer "github.com/filecoin-project/go-data-transfer/v2"
)

// Peer returns the i-th peer id of a fixed pool (well-formed sha2-256 multihash ids).
func Peer(i int) peer.ID {
	h, err := mh.Sum([]byte(fmt.Sprintf("verif-peer-%d", i)), mh.SHA2_256, -1)
	if err != nil {
		panic(err)
	}
	return peer.ID(h)
}

// PeerName gives a short printable name for pool peers.
func PeerName(p peer.ID) string {
	for i := 0; i < 16; i++ {
		if Peer(i) == p {
			return fmt.Sprintf("P%d", i)
		}
	}
	return p.String()
}

// CidOf returns a CIDv1 (raw, sha2-256) of the data.
func CidOf(data []byte) cid.Cid {
	h, err := mh.Sum(data, mh.SHA2_256, -1)
	if err != nil {
		panic(err)
	}
	return cid.NewCidV1(cid.Raw, h)
}

// Cid draws a CID: v0 / v1, several codecs and hash functions, including identity.
func Cid() *rapid.Generator[cid.Cid] {
	return rapid.Custom(func(t *rapid.T) cid.Cid {
		data := rapid.SliceOfN(rapid.Byte(), 0, 40).Draw(t, "cidData")
		switch rapid.IntRange(0, 5).Draw(t, "cidKind") {
		case 0:
			h, _ := mh.Sum(data, mh.SHA2_256, -1)
			return cid.NewCidV0(h)
		case 1:
			h, _ := mh.Sum(data, mh.IDENTITY, -1)
			return cid.NewCidV1(cid.Raw, h)
		case 2:
			h, _ := mh.Sum(data, mh.SHA2_512, -1)
			return cid.NewCidV1(cid.DagCBOR, h)
		case 3:
			h, _ := mh.Sum(data, mh.SHA2_256, -1)
			return cid.NewCidV1(cid.DagProtobuf, h)
		case 4:
			h, _ := mh.Sum(data, mh.SHA2_256, 20)
			return cid.NewCidV1(cid.DagCBOR, h)
		default:
			h, _ := mh.Sum(data, mh.SHA2_256, -1)
			return cid.NewCidV1(cid.Raw, h)
		}
	})
}

// SimpleCid draws a CIDv1 from a small space (for readable histories).
func SimpleCid() *rapid.Generator[cid.Cid] {
	return rapid.Custom(func(t *rapid.T) cid.Cid {
		return CidOf([]byte{byte(rapid.IntRange(0, 50).Draw(t, "cidSeed"))})
	})
}

// NodeOpts bounds the IPLD value generator.
type NodeOpts struct {
	MaxDepth int
	// ExcludeSmallFloats leaves out 8-byte floats whose bit pattern is below
	// 2^32 (finding F5) when set.
	ExcludeSmallFloats bool
	NoFloats           bool
}

var interestingInts = []int64{0, 1, -1, 23, 24, 255, 256, 65535, 65536, math.MaxInt32, math.MinInt32, 1 << 32, math.MaxInt64, math.MinInt64}
var interestingFloats = []float64{0.0, 1.5, -1.5, math.SmallestNonzeroFloat64, math.MaxFloat64, 1e-320, 3.0, -0.0000001, 1 << 53}

func float(t *rapid.T, o NodeOpts) float64 {
	for {
		var f float64
		if rapid.IntRange(0, 2).Draw(t, "fsel") == 0 {
			f = rapid.SampledFrom(interestingFloats).Draw(t, "fconst")
		} else {
			f = rapid.Float64().Draw(t, "f")
		}
		if math.IsNaN(f) || math.IsInf(f, 0) {
			f = 2.25
		}
		if o.ExcludeSmallFloats && math.Float64bits(f) <= math.MaxUint32 {
			f = 7.5
		}
		return f
	}
}

func drawNode(t *rapid.T, o NodeOpts, depth int, allowNull bool) datamodel.Node {
	max := 8
	if depth >= o.MaxDepth {
		max = 6 // scalars only
	}
	k := rapid.IntRange(0, max).Draw(t, "kind")
	switch k {
	case 0:
		if rapid.Bool().Draw(t, "isel") {
			return basicnode.NewInt(rapid.SampledFrom(interestingInts).Draw(t, "iconst"))
		}
		return basicnode.NewInt(rapid.Int64().Draw(t, "i"))
	case 1:
		return basicnode.NewString(rapid.StringN(0, 24, 64).Draw(t, "s"))
	case 2:
		return basicnode.NewBytes(rapid.SliceOfN(rapid.Byte(), 0, 32).Draw(t, "b"))
	case 3:
		return basicnode.NewBool(rapid.Bool().Draw(t, "bool"))
	case 4:
		if o.NoFloats {
			return basicnode.NewInt(int64(rapid.IntRange(-5, 5).Draw(t, "i2")))
		}
		return basicnode.NewFloat(float(t, o))
	case 5:
		return basicnode.NewLink(cidlink.Link{Cid: Cid().Draw(t, "link")})
	case 6:
		if allowNull {
			return datamodel.Null
		}
		return basicnode.NewString("nn")
	case 7:
		n := rapid.IntRange(0, 4).Draw(t, "llen")
		nb := basicnode.Prototype.List.NewBuilder()
		la, _ := nb.BeginList(int64(n))
		for i := 0; i < n; i++ {
			if err := la.AssembleValue().AssignNode(drawNode(t, o, depth+1, true)); err != nil {
				panic(err)
			}
		}
		_ = la.Finish()
		return nb.Build()
	default:
		n := rapid.IntRange(0, 4).Draw(t, "mlen")
		keys := rapid.SliceOfNDistinct(rapid.StringN(0, 6, 12), n, n, func(s string) string { return s }).Draw(t, "mkeys")
		nb := basicnode.Prototype.Map.NewBuilder()
		ma, _ := nb.BeginMap(int64(n))
		for _, key := range keys { // generated (non canonical) order
			va, err := ma.AssembleEntry(key)
			if err != nil {
				panic(err)
			}
			if err := va.AssignNode(drawNode(t, o, depth+1, true)); err != nil {
				panic(err)
			}
		}
		_ = ma.Finish()
		return nb.Build()
	}
}

// Node draws an arbitrary non-null IPLD value.
func Node(o NodeOpts) *rapid.Generator[datamodel.Node] {
	if o.MaxDepth == 0 {
		o.MaxDepth = 3
	}
	return rapid.Custom(func(t *rapid.T) datamodel.Node {
		return drawNode(t, o, 0, false)
	})
}

// SmallNode draws a short readable IPLD value (string / int / small map).
func SmallNode() *rapid.Generator[datamodel.Node] {
	return rapid.Custom(func(t *rapid.T) datamodel.Node {
		switch rapid.IntRange(0, 2).Draw(t, "sk") {
		case 0:
			return basicnode.NewString(rapid.StringMatching("[a-z]{1,4}").Draw(t, "s"))
		case 1:
			return basicnode.NewInt(int64(rapid.IntRange(0, 99).Draw(t, "i")))
		default:
			nb := basicnode.Prototype.Map.NewBuilder()
			ma, _ := nb.BeginMap(1)
			va, _ := ma.AssembleEntry(rapid.StringMatching("[a-z]{1,3}").Draw(t, "k"))
			_ = va.AssignInt(int64(rapid.IntRange(0, 9).Draw(t, "v")))
			_ = ma.Finish()
			return nb.Build()
		}
	})
}

// TypeID draws a voucher type identifier (non-empty).
func TypeID() *rapid.Generator[datatransfer.TypeIdentifier] {
	return rapid.Custom(func(t *rapid.T) datatransfer.TypeIdentifier {
		if rapid.IntRange(0, 3).Draw(t, "tsel") == 0 {
			return datatransfer.TypeIdentifier(rapid.StringN(1, 16, 64).Draw(t, "typ"))
		}
		return datatransfer.TypeIdentifier(rapid.SampledFrom([]string{"T/a", "T/b", "FakeDTType", "x"}).Draw(t, "typc"))
	})
}

// Voucher draws a typed voucher with an arbitrary value; one in five is a
// schema-typed (bindnode) node whose representation differs from its type-level view.
func Voucher(o NodeOpts) *rapid.Generator[datatransfer.TypedVoucher] {
	return rapid.Custom(func(t *rapid.T) datatransfer.TypedVoucher {
		if rapid.IntRange(0, 4).Draw(t, "schemaTyped") == 0 {
			return datatransfer.TypedVoucher{Type: TypeID().Draw(t, "vtype"), Voucher: SchemaTyped().Draw(t, "vtyped")}
		}
		return datatransfer.TypedVoucher{Type: TypeID().Draw(t, "vtype"), Voucher: Node(o).Draw(t, "vnode")}
	})
}

// A client-side voucher type with a tuple-represented part and a renamed field.
type terms struct {
	PricePerByte int64
	Interval     int64
}
type dealVoucher struct {
	Amount int64
	Deal   string
	Terms  terms
}

var dealVoucherType = func() schema.Type {
	ts, err := ipld.LoadSchemaBytes([]byte(`
		type Terms struct {
			PricePerByte Int
			Interval Int
		} representation tuple
		type DealVoucher struct {
			Amount Int
			Deal String
			Terms Terms (rename "t")
		}
	`))
	if err != nil {
		panic(err)
	}
	return ts.TypeByName("DealVoucher")
}()

// SchemaTyped draws a bindnode-typed value (NOT its representation).
func SchemaTyped() *rapid.Generator[datamodel.Node] {
	return rapid.Custom(func(t *rapid.T) datamodel.Node {
		v := &dealVoucher{Amount: int64(rapid.IntRange(0, 1000).Draw(t, "amount")), Deal: rapid.StringMatching("[a-z]{1,6}").Draw(t, "deal"),
			Terms: terms{PricePerByte: int64(rapid.IntRange(0, 9).Draw(t, "ppb")), Interval: int64(rapid.IntRange(1, 4096).Draw(t, "interval"))}}
		return bindnode.Wrap(v, dealVoucherType)
	})
}

// SmallVoucher draws a readable typed voucher.
func SmallVoucher() *rapid.Generator[datatransfer.TypedVoucher] {
	return rapid.Custom(func(t *rapid.T) datatransfer.TypedVoucher {
		return datatransfer.TypedVoucher{Type: TypeID().Draw(t, "vtype"), Voucher: SmallNode().Draw(t, "vnode")}
	})
}

// Enc returns the canonical DAG-CBOR bytes of a node ("null" marker for nil). A
// schema-typed node stands for its representation, the form the protocol carries.
func Enc(n datamodel.Node) []byte {
	if n == nil {
		return []byte("<nil>")
	}
	if tn, ok := n.(schema.TypedNode); ok {
		n = tn.Representation()
	}
	var buf bytes.Buffer
	if err := dagcbor.Encode(n, &buf); err != nil {
		return []byte("<enc-error:" + err.Error() + ">")
	}
	return buf.Bytes()
}

// EncHex is Enc as a hex string (for printing / comparison).
func EncHex(n datamodel.Node) string { return fmt.Sprintf("%x", Enc(n)) }

// NodesEqual compares two nodes as DAG-CBOR data.
func NodesEqual(a, b datamodel.Node) bool { return bytes.Equal(Enc(a), Enc(b)) }

// VoucherStr prints a typed voucher.
func VoucherStr(v datatransfer.TypedVoucher) string {
	return fmt.Sprintf("%q:%s", string(v.Type), EncHex(v.Voucher))
}

// VouchersStr prints a list of typed vouchers.
func VouchersStr(vs []datatransfer.TypedVoucher) []string {
	out := make([]string, len(vs))
	for i, v := range vs {
		out[i] = VoucherStr(v)
	}
	return out
}

// SortedKeys returns the sorted keys of a map[string]T.
func SortedKeys[T any](m map[string]T) []string {
	out := make([]string, 0, len(m))
	for k := range m {
		out = append(out, k)
	}
	sort.Strings(out)
	return out
}
