package dbl

import (
	"sync"

	"github.com/ipfs/go-cid"
	"github.com/ipld/go-ipld-prime/datamodel"
	"github.com/libp2p/go-libp2p/core/peer"

	datatransfer "github.com/filecoin-project/go-data-transfer/v2"
)

// Outcome is what a scripted validator returns.
type Outcome struct {
	Result datatransfer.ValidationResult
	Err    error
}

// VCall is one validator invocation.
type VCall struct {
	Seq      int64
	Kind     string // push pull restart
	Type     datatransfer.TypeIdentifier
	Chid     datatransfer.ChannelID
	Peer     peer.ID
	Voucher  datamodel.Node
	Base     cid.Cid
	Selector datamodel.Node
	State    datatransfer.ChannelState
	Out      Outcome
}

// Validator is a scripted, recording datatransfer.RequestValidator.
type Validator struct {
	Type datatransfer.TypeIdentifier

	mu    sync.Mutex
	calls []VCall
	// queue of outcomes; when empty Default is used
	queue   []Outcome
	Default Outcome
	// OnCall, if set, is invoked (outside the lock) with every call
	OnCall func(VCall)
}

var _ datatransfer.RequestValidator = (*Validator)(nil)

func NewValidator(typ datatransfer.TypeIdentifier) *Validator {
	return &Validator{Type: typ, Default: Outcome{Result: datatransfer.ValidationResult{Accepted: true}}}
}

// Push queues an outcome for the next call.
func (v *Validator) Push(o Outcome) {
	v.mu.Lock()
	v.queue = append(v.queue, o)
	v.mu.Unlock()
}

func (v *Validator) next(c VCall) (datatransfer.ValidationResult, error) {
	v.mu.Lock()
	o := v.Default
	if len(v.queue) > 0 {
		o = v.queue[0]
		v.queue = v.queue[1:]
	}
	c.Seq = NextSeq()
	c.Type = v.Type
	c.Out = o
	v.calls = append(v.calls, c)
	cb := v.OnCall
	v.mu.Unlock()
	if cb != nil {
		cb(c)
	}
	return o.Result, o.Err
}

func (v *Validator) ValidatePush(chid datatransfer.ChannelID, sender peer.ID, voucher datamodel.Node, baseCid cid.Cid, selector datamodel.Node) (datatransfer.ValidationResult, error) {
	return v.next(VCall{Kind: "push", Chid: chid, Peer: sender, Voucher: voucher, Base: baseCid, Selector: selector})
}

func (v *Validator) ValidatePull(chid datatransfer.ChannelID, receiver peer.ID, voucher datamodel.Node, baseCid cid.Cid, selector datamodel.Node) (datatransfer.ValidationResult, error) {
	return v.next(VCall{Kind: "pull", Chid: chid, Peer: receiver, Voucher: voucher, Base: baseCid, Selector: selector})
}

func (v *Validator) ValidateRestart(chid datatransfer.ChannelID, channel datatransfer.ChannelState) (datatransfer.ValidationResult, error) {
	return v.next(VCall{Kind: "restart", Chid: chid, State: channel})
}

func (v *Validator) Calls() []VCall {
	v.mu.Lock()
	defer v.mu.Unlock()
	out := make([]VCall, len(v.calls))
	copy(out, v.calls)
	return out
}

func (v *Validator) Len() int {
	v.mu.Lock()
	defer v.mu.Unlock()
	return len(v.calls)
}
