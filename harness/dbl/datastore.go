// Package dbl holds the thread-safe test doubles used by all engines.
package dbl

import (
	"context"
	"sort"
	"sync"

	ds "github.com/ipfs/go-datastore"
	dsq "github.com/ipfs/go-datastore/query"
)

// WriteItem is one key mutation.
type WriteItem struct {
	Key    string
	Value  []byte // nil for a delete
	Delete bool
}

// WriteOp is one atomic datastore write: a Put, a Delete or a committed batch.
type WriteOp struct {
	Seq   int
	Items []WriteItem
}

// RecDatastore is an in-memory datastore.Batching that records every write
// in order. A committed batch is one atomic WriteOp.
type RecDatastore struct {
	mu   sync.Mutex
	data map[string][]byte
	log  []WriteOp
}

var _ ds.Batching = (*RecDatastore)(nil)

func NewRecDatastore() *RecDatastore {
	return &RecDatastore{data: map[string][]byte{}}
}

func cp(b []byte) []byte {
	if b == nil {
		return nil
	}
	out := make([]byte, len(b))
	copy(out, b)
	return out
}

func (r *RecDatastore) apply(items []WriteItem, record bool) {
	for _, it := range items {
		if it.Delete {
			delete(r.data, it.Key)
		} else {
			r.data[it.Key] = cp(it.Value)
		}
	}
	if record {
		r.log = append(r.log, WriteOp{Seq: len(r.log), Items: items})
	}
}

func (r *RecDatastore) Put(ctx context.Context, key ds.Key, value []byte) error {
	r.mu.Lock()
	defer r.mu.Unlock()
	r.apply([]WriteItem{{Key: key.String(), Value: cp(value)}}, true)
	return nil
}

func (r *RecDatastore) Delete(ctx context.Context, key ds.Key) error {
	r.mu.Lock()
	defer r.mu.Unlock()
	r.apply([]WriteItem{{Key: key.String(), Delete: true}}, true)
	return nil
}

func (r *RecDatastore) Sync(ctx context.Context, prefix ds.Key) error { return nil }
func (r *RecDatastore) Close() error                                  { return nil }

func (r *RecDatastore) Get(ctx context.Context, key ds.Key) ([]byte, error) {
	r.mu.Lock()
	defer r.mu.Unlock()
	v, ok := r.data[key.String()]
	if !ok {
		return nil, ds.ErrNotFound
	}
	return cp(v), nil
}

func (r *RecDatastore) Has(ctx context.Context, key ds.Key) (bool, error) {
	r.mu.Lock()
	defer r.mu.Unlock()
	_, ok := r.data[key.String()]
	return ok, nil
}

func (r *RecDatastore) GetSize(ctx context.Context, key ds.Key) (int, error) {
	r.mu.Lock()
	defer r.mu.Unlock()
	v, ok := r.data[key.String()]
	if !ok {
		return -1, ds.ErrNotFound
	}
	return len(v), nil
}

func (r *RecDatastore) Query(ctx context.Context, q dsq.Query) (dsq.Results, error) {
	r.mu.Lock()
	keys := make([]string, 0, len(r.data))
	for k := range r.data {
		keys = append(keys, k)
	}
	sort.Strings(keys)
	re := make([]dsq.Entry, 0, len(keys))
	for _, k := range keys {
		v := r.data[k]
		e := dsq.Entry{Key: k, Size: len(v)}
		if !q.KeysOnly {
			e.Value = cp(v)
		}
		re = append(re, e)
	}
	r.mu.Unlock()
	res := dsq.ResultsWithEntries(q, re)
	res = dsq.NaiveQueryApply(q, res)
	return res, nil
}

type recBatch struct {
	r     *RecDatastore
	items []WriteItem
}

func (r *RecDatastore) Batch(ctx context.Context) (ds.Batch, error) {
	return &recBatch{r: r}, nil
}

func (b *recBatch) Put(ctx context.Context, key ds.Key, value []byte) error {
	b.items = append(b.items, WriteItem{Key: key.String(), Value: cp(value)})
	return nil
}

func (b *recBatch) Delete(ctx context.Context, key ds.Key) error {
	b.items = append(b.items, WriteItem{Key: key.String(), Delete: true})
	return nil
}

func (b *recBatch) Commit(ctx context.Context) error {
	b.r.mu.Lock()
	defer b.r.mu.Unlock()
	if len(b.items) == 0 {
		return nil
	}
	b.r.apply(b.items, true)
	b.items = nil
	return nil
}

// Log returns a copy of the write log.
func (r *RecDatastore) Log() []WriteOp {
	r.mu.Lock()
	defer r.mu.Unlock()
	out := make([]WriteOp, len(r.log))
	copy(out, r.log)
	return out
}

// LogLen returns the number of writes so far.
func (r *RecDatastore) LogLen() int {
	r.mu.Lock()
	defer r.mu.Unlock()
	return len(r.log)
}

// Snapshot returns a copy of the current content.
func (r *RecDatastore) Snapshot() map[string][]byte {
	r.mu.Lock()
	defer r.mu.Unlock()
	out := make(map[string][]byte, len(r.data))
	for k, v := range r.data {
		out[k] = cp(v)
	}
	return out
}

// Raw returns the current bytes under a key (nil when absent).
func (r *RecDatastore) Raw(key string) []byte {
	r.mu.Lock()
	defer r.mu.Unlock()
	return cp(r.data[key])
}

// Prefix returns a fresh datastore holding the result of the first k writes.
func (r *RecDatastore) Prefix(k int) *RecDatastore {
	r.mu.Lock()
	defer r.mu.Unlock()
	n := NewRecDatastore()
	for i := 0; i < k && i < len(r.log); i++ {
		n.apply(r.log[i].Items, false)
	}
	return n
}

// Clone returns a fresh datastore with the same content and an empty log.
func (r *RecDatastore) Clone() *RecDatastore {
	r.mu.Lock()
	defer r.mu.Unlock()
	n := NewRecDatastore()
	for k, v := range r.data {
		n.data[k] = cp(v)
	}
	return n
}

// FromMap builds a datastore from raw content.
func FromMap(m map[string][]byte) *RecDatastore {
	n := NewRecDatastore()
	for k, v := range m {
		n.data[k] = cp(v)
	}
	return n
}

// SetRaw writes a key without logging it (used to build input stores).
func (r *RecDatastore) SetRaw(key string, v []byte) {
	r.mu.Lock()
	defer r.mu.Unlock()
	r.data[key] = cp(v)
}
