package dbl

import (
	"context"
	"sync"

	ipld "github.com/ipld/go-ipld-prime"
	"github.com/ipld/go-ipld-prime/datamodel"
	"github.com/libp2p/go-libp2p/core/peer"

	datatransfer "github.com/filecoin-project/go-data-transfer/v2"
)

// TCall is one call on the transport double.
type TCall struct {
	Seq     int64
	Kind    string // open close pause resume cleanup shutdown sethandler
	Chid    datatransfer.ChannelID
	Peer    peer.ID
	Root    ipld.Link
	Sel     datamodel.Node
	Channel datatransfer.ChannelState
	Msg     datatransfer.Message
	Err     error
}

// Transport is a recording, scriptable datatransfer.PauseableTransport.
type Transport struct {
	mu     sync.Mutex
	calls  []TCall
	events datatransfer.EventsHandler
	// errs maps a call kind to the error it returns (persistent until cleared)
	errs map[string]error
	// ErrFn, if set, decides the result of a call before errs is consulted
	// (called under the lock; must not call back into the transport)
	ErrFn func(TCall) error
	// OnCall, if set, runs (outside the lock) before a call returns
	OnCall func(TCall)
	// shut is closed by Shutdown
	shut     chan struct{}
	shutOnce sync.Once
}

var _ datatransfer.PauseableTransport = (*Transport)(nil)

func NewTransport() *Transport {
	return &Transport{errs: map[string]error{}, shut: make(chan struct{})}
}

func (t *Transport) rec(c TCall) error {
	c.Seq = NextSeq()
	t.mu.Lock()
	c.Err = t.errs[c.Kind]
	if t.ErrFn != nil {
		if err := t.ErrFn(c); err != nil {
			c.Err = err
		}
	}
	t.calls = append(t.calls, c)
	cb := t.OnCall
	t.mu.Unlock()
	if cb != nil {
		cb(c)
	}
	return c.Err
}

// SetErrFn installs a per-call result function.
func (t *Transport) SetErrFn(f func(TCall) error) {
	t.mu.Lock()
	t.ErrFn = f
	t.mu.Unlock()
}

// SetErr makes every later call of the kind return err (nil clears).
func (t *Transport) SetErr(kind string, err error) {
	t.mu.Lock()
	defer t.mu.Unlock()
	if err == nil {
		delete(t.errs, kind)
	} else {
		t.errs[kind] = err
	}
}

func (t *Transport) OpenChannel(ctx context.Context, dataSender peer.ID, chid datatransfer.ChannelID, root ipld.Link, stor datamodel.Node, channel datatransfer.ChannelState, msg datatransfer.Message) error {
	return t.rec(TCall{Kind: "open", Chid: chid, Peer: dataSender, Root: root, Sel: stor, Channel: channel, Msg: msg})
}

func (t *Transport) CloseChannel(ctx context.Context, chid datatransfer.ChannelID) error {
	return t.rec(TCall{Kind: "close", Chid: chid})
}

func (t *Transport) SetEventHandler(events datatransfer.EventsHandler) error {
	t.mu.Lock()
	t.events = events
	t.mu.Unlock()
	return t.rec(TCall{Kind: "sethandler"})
}

func (t *Transport) CleanupChannel(chid datatransfer.ChannelID) {
	_ = t.rec(TCall{Kind: "cleanup", Chid: chid})
}

func (t *Transport) Shutdown(ctx context.Context) error {
	t.shutOnce.Do(func() { close(t.shut) })
	return t.rec(TCall{Kind: "shutdown"})
}

func (t *Transport) PauseChannel(ctx context.Context, chid datatransfer.ChannelID) error {
	return t.rec(TCall{Kind: "pause", Chid: chid})
}

func (t *Transport) ResumeChannel(ctx context.Context, msg datatransfer.Message, chid datatransfer.ChannelID) error {
	return t.rec(TCall{Kind: "resume", Chid: chid, Msg: msg})
}

// ShutdownCh is closed when Shutdown has been called.
func (t *Transport) ShutdownCh() <-chan struct{} { return t.shut }

// Events returns the handler registered by the manager.
func (t *Transport) Events() datatransfer.EventsHandler {
	t.mu.Lock()
	defer t.mu.Unlock()
	return t.events
}

func (t *Transport) Calls() []TCall {
	t.mu.Lock()
	defer t.mu.Unlock()
	out := make([]TCall, len(t.calls))
	copy(out, t.calls)
	return out
}

func (t *Transport) Len() int {
	t.mu.Lock()
	defer t.mu.Unlock()
	return len(t.calls)
}

// Since returns the calls recorded from index n on.
func (t *Transport) Since(n int) []TCall {
	t.mu.Lock()
	defer t.mu.Unlock()
	out := make([]TCall, len(t.calls)-n)
	copy(out, t.calls[n:])
	return out
}

// PlainTransport wraps Transport without the pause/resume methods.
type PlainTransport struct{ T *Transport }

var _ datatransfer.Transport = PlainTransport{}

func (p PlainTransport) OpenChannel(ctx context.Context, dataSender peer.ID, chid datatransfer.ChannelID, root ipld.Link, stor datamodel.Node, channel datatransfer.ChannelState, msg datatransfer.Message) error {
	return p.T.OpenChannel(ctx, dataSender, chid, root, stor, channel, msg)
}
func (p PlainTransport) CloseChannel(ctx context.Context, chid datatransfer.ChannelID) error {
	return p.T.CloseChannel(ctx, chid)
}
func (p PlainTransport) SetEventHandler(events datatransfer.EventsHandler) error {
	return p.T.SetEventHandler(events)
}
func (p PlainTransport) CleanupChannel(chid datatransfer.ChannelID) { p.T.CleanupChannel(chid) }
func (p PlainTransport) Shutdown(ctx context.Context) error         { return p.T.Shutdown(ctx) }
