package dbl

import (
	"sync"
	"sync/atomic"

	"github.com/libp2p/go-libp2p/core/peer"

	datatransfer "github.com/filecoin-project/go-data-transfer/v2"
)

// Seq is a process-wide sequence used to order calls across doubles.
var seq int64

func NextSeq() int64 { return atomic.AddInt64(&seq, 1) }

// EnvCall is one call on the channel environment.
type EnvCall struct {
	Seq  int64
	Kind string // "cleanup", "protect", "unprotect"
	Chid datatransfer.ChannelID
	Peer peer.ID
	Tag  string
}

// Env is a recording channels.ChannelEnvironment.
type Env struct {
	Self peer.ID

	mu    sync.Mutex
	calls []EnvCall
	// OnCleanup, if set, is invoked (outside the lock) for every cleanup.
	OnCleanup func(datatransfer.ChannelID)
}

func NewEnv(self peer.ID) *Env { return &Env{Self: self} }

func (e *Env) rec(c EnvCall) {
	c.Seq = NextSeq()
	e.mu.Lock()
	e.calls = append(e.calls, c)
	e.mu.Unlock()
}

func (e *Env) Protect(id peer.ID, tag string) { e.rec(EnvCall{Kind: "protect", Peer: id, Tag: tag}) }
func (e *Env) Unprotect(id peer.ID, tag string) bool {
	e.rec(EnvCall{Kind: "unprotect", Peer: id, Tag: tag})
	return false
}
func (e *Env) ID() peer.ID { return e.Self }
func (e *Env) CleanupChannel(chid datatransfer.ChannelID) {
	e.rec(EnvCall{Kind: "cleanup", Chid: chid})
	if e.OnCleanup != nil {
		e.OnCleanup(chid)
	}
}

func (e *Env) Calls() []EnvCall {
	e.mu.Lock()
	defer e.mu.Unlock()
	out := make([]EnvCall, len(e.calls))
	copy(out, e.calls)
	return out
}

// Cleanups returns the cleanup calls for a channel.
func (e *Env) Cleanups(chid datatransfer.ChannelID) []EnvCall {
	var out []EnvCall
	for _, c := range e.Calls() {
		if c.Kind == "cleanup" && c.Chid == chid {
			out = append(out, c)
		}
	}
	return out
}

// Unprotects returns the unprotect calls with the given tag.
func (e *Env) Unprotects(tag string) []EnvCall {
	var out []EnvCall
	for _, c := range e.Calls() {
		if c.Kind == "unprotect" && c.Tag == tag {
			out = append(out, c)
		}
	}
	return out
}
