package dbl

import (
	"context"
	"errors"
	"fmt"
	"sync"

	"github.com/ipfs/go-cid"
	"github.com/ipfs/go-graphsync"
	ipld "github.com/ipld/go-ipld-prime"
	"github.com/ipld/go-ipld-prime/datamodel"
	cidlink "github.com/ipld/go-ipld-prime/linking/cid"
	"github.com/ipld/go-ipld-prime/traversal"
	"github.com/libp2p/go-libp2p/core/peer"
)

// GSCall is one call on the graphsync double.
type GSCall struct {
	Seq  int64
	Kind string // request pause unpause cancel register-store unregister-store
	ID   graphsync.RequestID
	Peer peer.ID
	Root ipld.Link
	Sel  ipld.Node
	Name string
	Exts []graphsync.ExtensionData
	Err  error
}

type gsRequest struct {
	id     graphsync.RequestID
	respCh chan graphsync.ResponseProgress
	errCh  chan error
	done   bool
}

// GS is a recording, scriptable graphsync.GraphExchange written for the harness.
type GS struct {
	mu       sync.Mutex
	calls    []GSCall
	requests map[graphsync.RequestID]*gsRequest
	errs     map[string]error
	stores   map[string]bool

	// hooks captured from the transport
	IncomingRequestHook        graphsync.OnIncomingRequestHook
	IncomingResponseHook       graphsync.OnIncomingResponseHook
	IncomingBlockHook          graphsync.OnIncomingBlockHook
	OutgoingRequestHook        graphsync.OnOutgoingRequestHook
	OutgoingBlockHook          graphsync.OnOutgoingBlockHook
	RequestUpdatedHook         graphsync.OnRequestUpdatedHook
	OutgoingProcessingListener graphsync.OnRequestProcessingListener
	IncomingProcessingListener graphsync.OnRequestProcessingListener
	CompletedResponseListener  graphsync.OnResponseCompletedListener
	RequestorCancelledListener graphsync.OnRequestorCancelledListener
	BlockSentListener          graphsync.OnBlockSentListener
	NetworkErrorListener       graphsync.OnNetworkErrorListener
	ReceiverErrorListener      graphsync.OnReceiverNetworkErrorListener
	Unregistered               int

	// LastOutgoingActions holds the hook actions of the most recent Request
	LastOutgoingActions *OutReqActions
	// CancelCompletes says whether Cancel ends the request's channels (as graphsync does)
	CancelCompletes bool

	// loop models the run loop of graphsync's response manager: Pause and Unpause are
	// messages to that loop and return when it has served them, and the loop also delivers
	// the notifications that arrive from the network (requestor cancelled). Whatever was
	// queued with QueueOnLoop is handled by the loop before the next Pause / Unpause.
	loop      sync.Mutex
	loopQueue []func()

	// CancelUnconfirmed makes Cancel behave as go-graphsync v0.18 does for a request that
	// was pausing when it was cancelled: the cancel is sent, but the termination is never
	// confirmed, and the call ignores its context (it only ends with graphsync itself).
	CancelUnconfirmed bool
	released          chan struct{}
	releaseOnce       sync.Once
}

// Release ends every Cancel call that is waiting for a confirmation (graphsync shut down).
func (g *GS) Release() {
	g.releaseOnce.Do(func() { close(g.released) })
}

// SetCancelUnconfirmed switches the unconfirmed-cancel behaviour.
func (g *GS) SetCancelUnconfirmed(v bool) {
	g.mu.Lock()
	g.CancelUnconfirmed = v
	g.mu.Unlock()
}

// QueueOnLoop queues work the run loop handles before it serves the next Pause / Unpause
// (e.g. the delivery of a requestor-cancelled notification that arrived first).
func (g *GS) QueueOnLoop(f func()) {
	g.mu.Lock()
	g.loopQueue = append(g.loopQueue, f)
	g.mu.Unlock()
}

// OnLoop runs f on the run loop now (after what was queued before).
func (g *GS) OnLoop(f func()) {
	g.QueueOnLoop(f)
	g.serveLoop(nil)
}

// serveLoop handles the queued work and then the call c (nil: none) on the loop.
func (g *GS) serveLoop(c *GSCall) error {
	g.loop.Lock()
	defer g.loop.Unlock()
	g.mu.Lock()
	q := g.loopQueue
	g.loopQueue = nil
	g.mu.Unlock()
	for _, f := range q {
		f()
	}
	if c == nil {
		return nil
	}
	return g.rec(*c)
}

var _ graphsync.GraphExchange = (*GS)(nil)

func NewGS() *GS {
	return &GS{requests: map[graphsync.RequestID]*gsRequest{}, errs: map[string]error{}, stores: map[string]bool{}, CancelCompletes: true, released: make(chan struct{})}
}

func (g *GS) rec(c GSCall) error {
	c.Seq = NextSeq()
	g.mu.Lock()
	c.Err = g.errs[c.Kind]
	g.calls = append(g.calls, c)
	g.mu.Unlock()
	return c.Err
}

// SetErr scripts the result of a call kind (nil clears).
func (g *GS) SetErr(kind string, err error) {
	g.mu.Lock()
	defer g.mu.Unlock()
	if err == nil {
		delete(g.errs, kind)
	} else {
		g.errs[kind] = err
	}
}

func (g *GS) Calls() []GSCall {
	g.mu.Lock()
	defer g.mu.Unlock()
	out := make([]GSCall, len(g.calls))
	copy(out, g.calls)
	return out
}

func (g *GS) Len() int {
	g.mu.Lock()
	defer g.mu.Unlock()
	return len(g.calls)
}

func (g *GS) Since(n int) []GSCall {
	g.mu.Lock()
	defer g.mu.Unlock()
	out := make([]GSCall, len(g.calls)-n)
	copy(out, g.calls[n:])
	return out
}

// Stores returns the names of the registered persistence options.
func (g *GS) Stores() map[string]bool {
	g.mu.Lock()
	defer g.mu.Unlock()
	out := map[string]bool{}
	for k, v := range g.stores {
		if v {
			out[k] = true
		}
	}
	return out
}

func (g *GS) Request(ctx context.Context, p peer.ID, root ipld.Link, selector ipld.Node, extensions ...graphsync.ExtensionData) (<-chan graphsync.ResponseProgress, <-chan error) {
	id := graphsync.NewRequestID()
	r := &gsRequest{id: id, respCh: make(chan graphsync.ResponseProgress), errCh: make(chan error, 1)}
	g.mu.Lock()
	g.requests[id] = r
	hook := g.OutgoingRequestHook
	g.mu.Unlock()
	_ = g.rec(GSCall{Kind: "request", ID: id, Peer: p, Root: root, Sel: selector, Exts: extensions})
	if hook != nil {
		acts := &OutReqActions{}
		var c cid.Cid
		if cl, ok := root.(cidlink.Link); ok {
			c = cl.Cid
		}
		hook(p, &ReqData{RID: id, RootCid: c, Sel: selector, Exts: ExtMap(extensions), Typ: graphsync.RequestTypeNew}, acts)
		g.mu.Lock()
		g.LastOutgoingActions = acts
		g.mu.Unlock()
	}
	return r.respCh, r.errCh
}

// Complete ends a request made through Request with the given final error (nil = success).
func (g *GS) Complete(id graphsync.RequestID, err error) bool {
	g.mu.Lock()
	r, ok := g.requests[id]
	if !ok || r.done {
		g.mu.Unlock()
		return false
	}
	r.done = true
	g.mu.Unlock()
	close(r.respCh)
	if err != nil {
		r.errCh <- err
	}
	close(r.errCh)
	return true
}

// Open reports whether a request made through Request is still running.
func (g *GS) Open(id graphsync.RequestID) bool {
	g.mu.Lock()
	defer g.mu.Unlock()
	r, ok := g.requests[id]
	return ok && !r.done
}

func (g *GS) RegisterPersistenceOption(name string, lsys ipld.LinkSystem) error {
	err := g.rec(GSCall{Kind: "register-store", Name: name})
	if err == nil {
		g.mu.Lock()
		if g.stores[name] {
			err = fmt.Errorf("persistence option %s already registered", name)
		}
		g.stores[name] = true
		g.mu.Unlock()
	}
	return err
}

func (g *GS) UnregisterPersistenceOption(name string) error {
	err := g.rec(GSCall{Kind: "unregister-store", Name: name})
	g.mu.Lock()
	delete(g.stores, name)
	g.mu.Unlock()
	return err
}

func (g *GS) unreg() graphsync.UnregisterHookFunc {
	return func() {
		g.mu.Lock()
		g.Unregistered++
		g.mu.Unlock()
	}
}

func (g *GS) RegisterIncomingRequestHook(h graphsync.OnIncomingRequestHook) graphsync.UnregisterHookFunc {
	g.IncomingRequestHook = h
	return g.unreg()
}
func (g *GS) RegisterIncomingResponseHook(h graphsync.OnIncomingResponseHook) graphsync.UnregisterHookFunc {
	g.IncomingResponseHook = h
	return g.unreg()
}
func (g *GS) RegisterIncomingBlockHook(h graphsync.OnIncomingBlockHook) graphsync.UnregisterHookFunc {
	g.IncomingBlockHook = h
	return g.unreg()
}
func (g *GS) RegisterOutgoingRequestHook(h graphsync.OnOutgoingRequestHook) graphsync.UnregisterHookFunc {
	g.mu.Lock()
	g.OutgoingRequestHook = h
	g.mu.Unlock()
	return g.unreg()
}
func (g *GS) RegisterOutgoingBlockHook(h graphsync.OnOutgoingBlockHook) graphsync.UnregisterHookFunc {
	g.OutgoingBlockHook = h
	return g.unreg()
}
func (g *GS) RegisterRequestUpdatedHook(h graphsync.OnRequestUpdatedHook) graphsync.UnregisterHookFunc {
	g.RequestUpdatedHook = h
	return g.unreg()
}
func (g *GS) RegisterOutgoingRequestProcessingListener(l graphsync.OnRequestProcessingListener) graphsync.UnregisterHookFunc {
	g.OutgoingProcessingListener = l
	return g.unreg()
}
func (g *GS) RegisterIncomingRequestProcessingListener(l graphsync.OnRequestProcessingListener) graphsync.UnregisterHookFunc {
	g.IncomingProcessingListener = l
	return g.unreg()
}
func (g *GS) RegisterCompletedResponseListener(l graphsync.OnResponseCompletedListener) graphsync.UnregisterHookFunc {
	g.CompletedResponseListener = l
	return g.unreg()
}
func (g *GS) RegisterRequestorCancelledListener(l graphsync.OnRequestorCancelledListener) graphsync.UnregisterHookFunc {
	g.RequestorCancelledListener = l
	return g.unreg()
}
func (g *GS) RegisterBlockSentListener(l graphsync.OnBlockSentListener) graphsync.UnregisterHookFunc {
	g.BlockSentListener = l
	return g.unreg()
}
func (g *GS) RegisterNetworkErrorListener(l graphsync.OnNetworkErrorListener) graphsync.UnregisterHookFunc {
	g.NetworkErrorListener = l
	return g.unreg()
}
func (g *GS) RegisterReceiverNetworkErrorListener(l graphsync.OnReceiverNetworkErrorListener) graphsync.UnregisterHookFunc {
	g.ReceiverErrorListener = l
	return g.unreg()
}

func (g *GS) Pause(ctx context.Context, id graphsync.RequestID) error {
	return g.serveLoop(&GSCall{Kind: "pause", ID: id})
}

func (g *GS) Unpause(ctx context.Context, id graphsync.RequestID, exts ...graphsync.ExtensionData) error {
	return g.serveLoop(&GSCall{Kind: "unpause", ID: id, Exts: exts})
}

func (g *GS) Cancel(ctx context.Context, id graphsync.RequestID) error {
	err := g.rec(GSCall{Kind: "cancel", ID: id})
	g.mu.Lock()
	cc := g.CancelCompletes
	unconfirmed := g.CancelUnconfirmed
	g.mu.Unlock()
	if unconfirmed {
		<-g.released
		return errors.New("context cancelled")
	}
	if cc {
		g.Complete(id, graphsync.RequestClientCancelledErr{})
	}
	return err
}

func (g *GS) SendUpdate(ctx context.Context, id graphsync.RequestID, exts ...graphsync.ExtensionData) error {
	return g.rec(GSCall{Kind: "update", ID: id, Exts: exts})
}

func (g *GS) Stats() graphsync.Stats { return graphsync.Stats{} }

// ---------------------------------------------------------------------------
// data doubles

func ExtMap(exts []graphsync.ExtensionData) map[graphsync.ExtensionName]datamodel.Node {
	m := map[graphsync.ExtensionName]datamodel.Node{}
	for _, e := range exts {
		m[e.Name] = e.Data
	}
	return m
}

type ReqData struct {
	RID     graphsync.RequestID
	RootCid cid.Cid
	Sel     ipld.Node
	Exts    map[graphsync.ExtensionName]datamodel.Node
	Typ     graphsync.RequestType
}

func (r *ReqData) ID() graphsync.RequestID      { return r.RID }
func (r *ReqData) Root() cid.Cid                { return r.RootCid }
func (r *ReqData) Selector() ipld.Node          { return r.Sel }
func (r *ReqData) Priority() graphsync.Priority { return 0 }
func (r *ReqData) Type() graphsync.RequestType  { return r.Typ }
func (r *ReqData) Extension(name graphsync.ExtensionName) (datamodel.Node, bool) {
	n, ok := r.Exts[name]
	return n, ok
}

type RespData struct {
	RID  graphsync.RequestID
	Code graphsync.ResponseStatusCode
	Exts map[graphsync.ExtensionName]datamodel.Node
}

func (r *RespData) RequestID() graphsync.RequestID       { return r.RID }
func (r *RespData) Status() graphsync.ResponseStatusCode { return r.Code }
func (r *RespData) Metadata() graphsync.LinkMetadata     { return nil }
func (r *RespData) Extension(name graphsync.ExtensionName) (datamodel.Node, bool) {
	n, ok := r.Exts[name]
	return n, ok
}

type BlkData struct {
	L      ipld.Link
	Size   uint64
	OnWire uint64
	Idx    int64
}

func (b *BlkData) Link() ipld.Link         { return b.L }
func (b *BlkData) BlockSize() uint64       { return b.Size }
func (b *BlkData) BlockSizeOnWire() uint64 { return b.OnWire }
func (b *BlkData) Index() int64            { return b.Idx }

// ---------------------------------------------------------------------------
// hook action recorders

type Actions struct {
	Terminated   []error
	Paused       int
	PausedReq    int
	Unpaused     int
	Validated    int
	SentExts     []graphsync.ExtensionData
	UpdateExts   []graphsync.ExtensionData
	Persistence  []string
	MaxLinksSet  []uint64
	AugmentedCtx int
}

type InReqActions struct{ Actions }

func (a *InReqActions) AugmentContext(func(reqCtx context.Context) context.Context) { a.AugmentedCtx++ }
func (a *InReqActions) SendExtensionData(e graphsync.ExtensionData) {
	a.SentExts = append(a.SentExts, e)
}
func (a *InReqActions) UsePersistenceOption(name string) { a.Persistence = append(a.Persistence, name) }
func (a *InReqActions) UseLinkTargetNodePrototypeChooser(traversal.LinkTargetNodePrototypeChooser) {
}
func (a *InReqActions) TerminateWithError(err error) { a.Terminated = append(a.Terminated, err) }
func (a *InReqActions) ValidateRequest()             { a.Validated++ }
func (a *InReqActions) PauseResponse()               { a.Paused++ }
func (a *InReqActions) MaxLinks(n uint64)            { a.MaxLinksSet = append(a.MaxLinksSet, n) }

type OutBlockActions struct{ Actions }

func (a *OutBlockActions) SendExtensionData(e graphsync.ExtensionData) {
	a.SentExts = append(a.SentExts, e)
}
func (a *OutBlockActions) TerminateWithError(err error) { a.Terminated = append(a.Terminated, err) }
func (a *OutBlockActions) PauseResponse()               { a.Paused++ }

type OutReqActions struct{ Actions }

func (a *OutReqActions) UsePersistenceOption(name string) {
	a.Persistence = append(a.Persistence, name)
}
func (a *OutReqActions) UseLinkTargetNodePrototypeChooser(traversal.LinkTargetNodePrototypeChooser) {
}
func (a *OutReqActions) MaxLinks(n uint64) { a.MaxLinksSet = append(a.MaxLinksSet, n) }

type InRespActions struct{ Actions }

func (a *InRespActions) TerminateWithError(err error) { a.Terminated = append(a.Terminated, err) }
func (a *InRespActions) UpdateRequestWithExtensions(e ...graphsync.ExtensionData) {
	a.UpdateExts = append(a.UpdateExts, e...)
}

type InBlockActions struct{ Actions }

func (a *InBlockActions) TerminateWithError(err error) { a.Terminated = append(a.Terminated, err) }
func (a *InBlockActions) UpdateRequestWithExtensions(e ...graphsync.ExtensionData) {
	a.UpdateExts = append(a.UpdateExts, e...)
}
func (a *InBlockActions) PauseRequest() { a.PausedReq++ }

type ReqUpdatedActions struct{ Actions }

func (a *ReqUpdatedActions) TerminateWithError(err error) { a.Terminated = append(a.Terminated, err) }
func (a *ReqUpdatedActions) SendExtensionData(e graphsync.ExtensionData) {
	a.SentExts = append(a.SentExts, e)
}
func (a *ReqUpdatedActions) UnpauseResponse() { a.Unpaused++ }
