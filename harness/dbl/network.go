package dbl

import (
	"context"
	"sync"
	"time"

	"github.com/libp2p/go-libp2p/core/peer"
	"github.com/libp2p/go-libp2p/core/protocol"

	datatransfer "github.com/filecoin-project/go-data-transfer/v2"
	"github.com/filecoin-project/go-data-transfer/v2/network"
)

// Sent is one SendMessage call on the network double.
type Sent struct {
	Seq int64
	To  peer.ID
	Msg datatransfer.Message
	Err error
}

// NetCall is any other call on the network double.
type NetCall struct {
	Seq  int64
	Kind string // protect unprotect connect connectretry
	Peer peer.ID
	Tag  string
	Err  error
}

// Network is a recording, scriptable network.DataTransferNetwork.
type Network struct {
	self peer.ID

	mu       sync.Mutex
	sent     []Sent
	calls    []NetCall
	delegate network.Receiver
	// SendErr decides the result of a send (nil func = success)
	SendErr func(to peer.ID, msg datatransfer.Message) error
	// ConnErr is returned by ConnectTo / ConnectWithRetry
	ConnErr error
	// ConnErrFn, if set, decides the result of each connect call instead
	ConnErrFn func(p peer.ID) error
	// OnSend, if set, is called (outside the lock) after the send was recorded
	OnSend func(Sent)
	// SendDelay makes every send take that long (it ends early, with the
	// context's error, when the caller's context ends - like a real stream open)
	SendDelay time.Duration
}

var _ network.DataTransferNetwork = (*Network)(nil)

func NewNetwork(self peer.ID) *Network { return &Network{self: self} }

func (n *Network) Protect(id peer.ID, tag string) {
	n.mu.Lock()
	n.calls = append(n.calls, NetCall{Seq: NextSeq(), Kind: "protect", Peer: id, Tag: tag})
	n.mu.Unlock()
}

func (n *Network) Unprotect(id peer.ID, tag string) bool {
	n.mu.Lock()
	n.calls = append(n.calls, NetCall{Seq: NextSeq(), Kind: "unprotect", Peer: id, Tag: tag})
	n.mu.Unlock()
	return false
}

func (n *Network) SendMessage(ctx context.Context, to peer.ID, msg datatransfer.Message) error {
	n.mu.Lock()
	f := n.SendErr
	delay := n.SendDelay
	n.mu.Unlock()
	var err error
	if delay > 0 {
		select {
		case <-time.After(delay):
		case <-ctx.Done():
		}
	}
	if cerr := ctx.Err(); cerr != nil {
		err = cerr
	} else if f != nil {
		err = f(to, msg)
	}
	s := Sent{Seq: NextSeq(), To: to, Msg: msg, Err: err}
	n.mu.Lock()
	n.sent = append(n.sent, s)
	cb := n.OnSend
	n.mu.Unlock()
	if cb != nil {
		cb(s)
	}
	return err
}

func (n *Network) SetDelegate(r network.Receiver) {
	n.mu.Lock()
	n.delegate = r
	n.mu.Unlock()
}

func (n *Network) Delegate() network.Receiver {
	n.mu.Lock()
	defer n.mu.Unlock()
	return n.delegate
}

func (n *Network) connect(kind string, p peer.ID) error {
	n.mu.Lock()
	defer n.mu.Unlock()
	err := n.ConnErr
	if n.ConnErrFn != nil {
		err = n.ConnErrFn(p)
	}
	n.calls = append(n.calls, NetCall{Seq: NextSeq(), Kind: kind, Peer: p, Err: err})
	return err
}

func (n *Network) ConnectTo(ctx context.Context, p peer.ID) error { return n.connect("connect", p) }

func (n *Network) ConnectWithRetry(ctx context.Context, p peer.ID) error {
	return n.connect("connectretry", p)
}

// SetConnErrFn installs the per-call connect result function.
func (n *Network) SetConnErrFn(f func(p peer.ID) error) {
	n.mu.Lock()
	n.ConnErrFn = f
	n.mu.Unlock()
}

func (n *Network) ID() peer.ID { return n.self }

func (n *Network) Protocol(ctx context.Context, p peer.ID) (protocol.ID, error) {
	return datatransfer.ProtocolDataTransfer1_2, nil
}

// SetSendDelay sets the duration of every send.
func (n *Network) SetSendDelay(d time.Duration) {
	n.mu.Lock()
	n.SendDelay = d
	n.mu.Unlock()
}

// SetSendErr installs the send-result function.
func (n *Network) SetSendErr(f func(to peer.ID, msg datatransfer.Message) error) {
	n.mu.Lock()
	n.SendErr = f
	n.mu.Unlock()
}

func (n *Network) SentMsgs() []Sent {
	n.mu.Lock()
	defer n.mu.Unlock()
	out := make([]Sent, len(n.sent))
	copy(out, n.sent)
	return out
}

func (n *Network) SentLen() int {
	n.mu.Lock()
	defer n.mu.Unlock()
	return len(n.sent)
}

func (n *Network) SentSince(i int) []Sent {
	n.mu.Lock()
	defer n.mu.Unlock()
	out := make([]Sent, len(n.sent)-i)
	copy(out, n.sent[i:])
	return out
}

func (n *Network) NetCalls() []NetCall {
	n.mu.Lock()
	defer n.mu.Unlock()
	out := make([]NetCall, len(n.calls))
	copy(out, n.calls)
	return out
}
