package dbl

import (
	"context"
	"sync"

	ipld "github.com/ipld/go-ipld-prime"

	datatransfer "github.com/filecoin-project/go-data-transfer/v2"
)

// EvCall is one call on the events-handler double.
type EvCall struct {
	Seq    int64
	Kind   string
	Chid   datatransfer.ChannelID
	Msg    datatransfer.Message
	Link   ipld.Link
	Size   uint64
	Index  int64
	Unique bool
	Err    error // error argument (completed / cancelled / error notices)
}

// Events is a recording, scriptable datatransfer.EventsHandler.
type Events struct {
	mu    sync.Mutex
	calls []EvCall
	// Result maps a call kind to the error it returns
	Result map[string]error
	// Response is returned by OnRequestReceived
	Response datatransfer.Response
	// QueuedMsg is returned by OnDataQueued
	QueuedMsg datatransfer.Message
	// OnCall, if set, runs outside the lock for every call
	OnCall func(EvCall)
}

var _ datatransfer.EventsHandler = (*Events)(nil)

func NewEvents() *Events { return &Events{Result: map[string]error{}} }

func (e *Events) rec(c EvCall) error {
	c.Seq = NextSeq()
	e.mu.Lock()
	e.calls = append(e.calls, c)
	err := e.Result[c.Kind]
	cb := e.OnCall
	e.mu.Unlock()
	if cb != nil {
		cb(c)
	}
	return err
}

// SetResult scripts the return value of a call kind.
func (e *Events) SetResult(kind string, err error) {
	e.mu.Lock()
	defer e.mu.Unlock()
	if err == nil {
		delete(e.Result, kind)
	} else {
		e.Result[kind] = err
	}
}

func (e *Events) SetResponse(r datatransfer.Response, q datatransfer.Message) {
	e.mu.Lock()
	e.Response, e.QueuedMsg = r, q
	e.mu.Unlock()
}

func (e *Events) OnChannelOpened(chid datatransfer.ChannelID) error {
	return e.rec(EvCall{Kind: "opened", Chid: chid})
}
func (e *Events) OnResponseReceived(chid datatransfer.ChannelID, msg datatransfer.Response) error {
	return e.rec(EvCall{Kind: "response", Chid: chid, Msg: msg})
}
func (e *Events) OnDataReceived(chid datatransfer.ChannelID, link ipld.Link, size uint64, index int64, unique bool) error {
	return e.rec(EvCall{Kind: "data-received", Chid: chid, Link: link, Size: size, Index: index, Unique: unique})
}
func (e *Events) OnDataQueued(chid datatransfer.ChannelID, link ipld.Link, size uint64, index int64, unique bool) (datatransfer.Message, error) {
	err := e.rec(EvCall{Kind: "data-queued", Chid: chid, Link: link, Size: size, Index: index, Unique: unique})
	e.mu.Lock()
	m := e.QueuedMsg
	e.mu.Unlock()
	return m, err
}
func (e *Events) OnDataSent(chid datatransfer.ChannelID, link ipld.Link, size uint64, index int64, unique bool) error {
	return e.rec(EvCall{Kind: "data-sent", Chid: chid, Link: link, Size: size, Index: index, Unique: unique})
}
func (e *Events) OnTransferInitiated(chid datatransfer.ChannelID) {
	_ = e.rec(EvCall{Kind: "initiated", Chid: chid})
}
func (e *Events) OnRequestReceived(chid datatransfer.ChannelID, msg datatransfer.Request) (datatransfer.Response, error) {
	err := e.rec(EvCall{Kind: "request", Chid: chid, Msg: msg})
	e.mu.Lock()
	r := e.Response
	e.mu.Unlock()
	return r, err
}
func (e *Events) OnChannelCompleted(chid datatransfer.ChannelID, err error) error {
	return e.rec(EvCall{Kind: "completed", Chid: chid, Err: err})
}
func (e *Events) OnRequestCancelled(chid datatransfer.ChannelID, err error) error {
	return e.rec(EvCall{Kind: "cancelled", Chid: chid, Err: err})
}
func (e *Events) OnRequestDisconnected(chid datatransfer.ChannelID, err error) error {
	return e.rec(EvCall{Kind: "disconnected", Chid: chid, Err: err})
}
func (e *Events) OnSendDataError(chid datatransfer.ChannelID, err error) error {
	return e.rec(EvCall{Kind: "send-error", Chid: chid, Err: err})
}
func (e *Events) OnReceiveDataError(chid datatransfer.ChannelID, err error) error {
	return e.rec(EvCall{Kind: "receive-error", Chid: chid, Err: err})
}
func (e *Events) OnContextAugment(chid datatransfer.ChannelID) func(context.Context) context.Context {
	return func(ctx context.Context) context.Context { return ctx }
}

func (e *Events) Calls() []EvCall {
	e.mu.Lock()
	defer e.mu.Unlock()
	out := make([]EvCall, len(e.calls))
	copy(out, e.calls)
	return out
}

func (e *Events) Len() int {
	e.mu.Lock()
	defer e.mu.Unlock()
	return len(e.calls)
}

func (e *Events) Since(n int) []EvCall {
	e.mu.Lock()
	defer e.mu.Unlock()
	out := make([]EvCall, len(e.calls)-n)
	copy(out, e.calls[n:])
	return out
}
