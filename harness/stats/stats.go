// Package stats collects the per-property evidence counters of a test run and
// writes them where the driver can merge them.
package stats

import (
	"encoding/json"
	"fmt"
	"hash/fnv"
	"os"
	"sort"
	"sync"
)

const maxFingerprints = 400000
const maxSamples = 6

// Prop holds the counters of one property.
type Prop struct {
	mu       sync.Mutex
	ID       string
	Rule     string
	evals    int64
	fps      map[uint64]struct{}
	classes  map[string]int64
	samples  []any
	sampleFp map[uint64]struct{}
	notes    map[string]any
}

var (
	mu    sync.Mutex
	props = map[string]*Prop{}
)

// For returns the collector of a property.
func For(id string) *Prop {
	mu.Lock()
	defer mu.Unlock()
	p, ok := props[id]
	if !ok {
		p = &Prop{ID: id, fps: map[uint64]struct{}{}, classes: map[string]int64{}, sampleFp: map[uint64]struct{}{}, notes: map[string]any{}}
		props[id] = p
	}
	return p
}

// SetRule records the generation / non-triviality rule text.
func (p *Prop) SetRule(r string) {
	p.mu.Lock()
	p.Rule = r
	p.mu.Unlock()
}

// Eval counts one executed case.
func (p *Prop) Eval() { p.EvalN(1) }

func (p *Prop) EvalN(n int) {
	p.mu.Lock()
	p.evals += int64(n)
	p.mu.Unlock()
}

// Nontrivial records the fingerprint of a case that is non-trivial by the rule.
func (p *Prop) Nontrivial(fp uint64) {
	p.mu.Lock()
	if len(p.fps) < maxFingerprints {
		p.fps[fp] = struct{}{}
	}
	p.mu.Unlock()
}

// Class bumps a histogram class.
func (p *Prop) Class(name string) { p.ClassN(name, 1) }

func (p *Prop) ClassN(name string, n int) {
	p.mu.Lock()
	p.classes[name] += int64(n)
	p.mu.Unlock()
}

// Sample keeps a handful of distinct written-out cases.
func (p *Prop) Sample(fp uint64, v any) {
	p.mu.Lock()
	defer p.mu.Unlock()
	if len(p.samples) >= maxSamples {
		return
	}
	if _, ok := p.sampleFp[fp]; ok {
		return
	}
	p.sampleFp[fp] = struct{}{}
	p.samples = append(p.samples, v)
}

// WantSample says whether another sample is still wanted (to avoid building
// expensive descriptions).
func (p *Prop) WantSample() bool {
	p.mu.Lock()
	defer p.mu.Unlock()
	return len(p.samples) < maxSamples
}

// Note stores an arbitrary extra key in the evidence.
func (p *Prop) Note(k string, v any) {
	p.mu.Lock()
	p.notes[k] = v
	p.mu.Unlock()
}

// FP hashes the printed form of its arguments.
func FP(parts ...any) uint64 {
	h := fnv.New64a()
	for _, p := range parts {
		fmt.Fprintf(h, "%v\x00", p)
	}
	return h.Sum64()
}

type dump struct {
	ID           string           `json:"id"`
	Rule         string           `json:"rule"`
	Evaluations  int64            `json:"evaluations"`
	Fingerprints []uint64         `json:"fingerprints"`
	Classes      map[string]int64 `json:"classes"`
	Samples      []any            `json:"samples"`
	Notes        map[string]any   `json:"notes"`
}

// Flush writes all collectors to the file named by VERIF_STATS_OUT (no-op
// when unset).
func Flush() {
	path := os.Getenv("VERIF_STATS_OUT")
	if path == "" {
		return
	}
	mu.Lock()
	defer mu.Unlock()
	var out []dump
	ids := make([]string, 0, len(props))
	for id := range props {
		ids = append(ids, id)
	}
	sort.Strings(ids)
	for _, id := range ids {
		p := props[id]
		p.mu.Lock()
		d := dump{ID: id, Rule: p.Rule, Evaluations: p.evals, Classes: p.classes, Samples: p.samples, Notes: p.notes}
		for fp := range p.fps {
			d.Fingerprints = append(d.Fingerprints, fp)
		}
		sort.Slice(d.Fingerprints, func(i, j int) bool { return d.Fingerprints[i] < d.Fingerprints[j] })
		p.mu.Unlock()
		out = append(out, d)
	}
	b, err := json.Marshal(out)
	if err != nil {
		fmt.Fprintf(os.Stderr, "stats: marshal: %v\n", err)
		return
	}
	if err := os.WriteFile(path, b, 0o644); err != nil {
		fmt.Fprintf(os.Stderr, "stats: write: %v\n", err)
	}
}
