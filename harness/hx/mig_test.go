package hx

import (
	"context"
	"fmt"
	"os"
	"sort"
	"strings"
	"sync"
	"testing"
	"time"

	"github.com/ipfs/go-cid"
	"github.com/ipld/go-ipld-prime/datamodel"
	"github.com/ipld/go-ipld-prime/node/basicnode"
	"github.com/libp2p/go-libp2p/core/peer"
	"pgregory.net/rapid"

	datatransfer "github.com/filecoin-project/go-data-transfer/v2"
	"github.com/filecoin-project/go-data-transfer/v2/channels"
	dtimpl "github.com/filecoin-project/go-data-transfer/v2/impl"

	"verif/harness/cborw"
	"verif/harness/dbl"
	"verif/harness/gen"
	"verif/harness/stats"
)

// v2 record as the generator sees it (independent of the generated codec).
type v2log struct {
	msg string
	at  int64
}
type v2stage struct {
	name, desc       string
	created, updated int64
	logs             []v2log
}
type v2rec struct {
	selfInit, pull         bool
	other                  peer.ID
	tid                    uint64
	base                   cid.Cid
	selector               datamodel.Node
	totalSize              uint64
	status                 uint64
	queued, sent, received uint64
	message                string
	vouchers, results      []datatransfer.TypedVoucher
	rIdx, qIdx, sIdx       int64
	limit                  uint64
	reqFinal               bool
	stages                 []v2stage
	hasStages              bool
	keyPerm                []int
}

func (r v2rec) parties(self peer.ID) (ini, resp, snd, rcv peer.ID) {
	return chanSpec{SelfInitiator: r.selfInit, Pull: r.pull, Other: r.other}.parties(self)
}

func (r v2rec) chid(self peer.ID) datatransfer.ChannelID {
	i, rs, _, _ := r.parties(self)
	return datatransfer.ChannelID{Initiator: i, Responder: rs, ID: datatransfer.TransferID(r.tid)}
}

// encode writes the version-2 record: a CBOR map keyed by field name with
// tuple-encoded stages (layout read off the generated codec, no shared code).
func (r v2rec) encode(self peer.ID) []byte {
	ini, resp, snd, rcv := r.parties(self)
	var w cborw.W
	vlist := func(vs []datatransfer.TypedVoucher, valueKey string) func(w *cborw.W) {
		return func(w *cborw.W) {
			w.Head(4, uint64(len(vs)))
			for _, v := range vs {
				cborw.StructMap(w, []cborw.Field{
					{Key: "Type", Put: func(w *cborw.W) { w.Text(string(v.Type)) }},
					{Key: valueKey, Put: func(w *cborw.W) { w.Node(v.Voucher) }},
				}, true)
			}
		}
	}
	fields := []cborw.Field{
		{Key: "SelfPeer", Put: func(w *cborw.W) { w.Text(string(self)) }},
		{Key: "TransferID", Put: func(w *cborw.W) { w.Uint(r.tid) }},
		{Key: "Initiator", Put: func(w *cborw.W) { w.Text(string(ini)) }},
		{Key: "Responder", Put: func(w *cborw.W) { w.Text(string(resp)) }},
		{Key: "BaseCid", Put: func(w *cborw.W) { w.Link(r.base.Bytes()) }},
		{Key: "Selector", Put: func(w *cborw.W) { w.Node(r.selector) }},
		{Key: "Sender", Put: func(w *cborw.W) { w.Text(string(snd)) }},
		{Key: "Recipient", Put: func(w *cborw.W) { w.Text(string(rcv)) }},
		{Key: "TotalSize", Put: func(w *cborw.W) { w.Uint(r.totalSize) }},
		{Key: "Status", Put: func(w *cborw.W) { w.Uint(r.status) }},
		{Key: "Queued", Put: func(w *cborw.W) { w.Uint(r.queued) }},
		{Key: "Sent", Put: func(w *cborw.W) { w.Uint(r.sent) }},
		{Key: "Received", Put: func(w *cborw.W) { w.Uint(r.received) }},
		{Key: "Message", Put: func(w *cborw.W) { w.Text(r.message) }},
		{Key: "Vouchers", Put: vlist(r.vouchers, "Voucher")},
		{Key: "VoucherResults", Put: vlist(r.results, "VoucherResult")},
		{Key: "ReceivedBlocksTotal", Put: func(w *cborw.W) { w.Int(r.rIdx) }},
		{Key: "QueuedBlocksTotal", Put: func(w *cborw.W) { w.Int(r.qIdx) }},
		{Key: "SentBlocksTotal", Put: func(w *cborw.W) { w.Int(r.sIdx) }},
		{Key: "DataLimit", Put: func(w *cborw.W) { w.Uint(r.limit) }},
		{Key: "RequiresFinalization", Put: func(w *cborw.W) { w.Bool(r.reqFinal) }},
		{Key: "Stages", Put: func(w *cborw.W) {
			if !r.hasStages {
				w.Null()
				return
			}
			w.Head(4, 1)
			w.Head(4, uint64(len(r.stages)))
			for _, s := range r.stages {
				w.Head(4, 5)
				w.Text(s.name)
				w.Text(s.desc)
				w.Int(s.created)
				w.Int(s.updated)
				w.Head(4, uint64(len(s.logs)))
				for _, l := range s.logs {
					w.Head(4, 2)
					w.Text(l.msg)
					w.Int(l.at)
				}
			}
		}},
	}
	// generated key order
	out := make([]cborw.Field, 0, len(fields))
	used := map[int]bool{}
	for _, p := range r.keyPerm {
		i := p % len(fields)
		for used[i] {
			i = (i + 1) % len(fields)
		}
		used[i] = true
		out = append(out, fields[i])
	}
	for i := range fields {
		if !used[i] {
			out = append(out, fields[i])
		}
	}
	cborw.StructMap(&w, out, true)
	return w.Bytes()
}

// wantVec is the accessor vector the migrated channel must show.
func (r v2rec) wantVec(self peer.ID) Vec {
	ini, resp, snd, rcv := r.parties(self)
	st := datatransfer.Status(r.status)
	// the published numbering of the three deprecated paused statuses (literal, not the library's constants)
	ip := r.status == 11 || r.status == 13
	rp := r.status == 12 || r.status == 13
	if ip || rp {
		st = datatransfer.Ongoing
	}
	v := Vec{Status: st, Message: r.message, Queued: r.queued, Sent: r.sent, Received: r.received,
		QueuedIdx: r.qIdx, SentIdx: r.sIdx, ReceivedIdx: r.rIdx, DataLimit: r.limit, ReqFinal: r.reqFinal,
		InitPaused: ip, RespPaused: rp || st == datatransfer.Finalizing,
		TransferID: datatransfer.TransferID(r.tid), BaseCID: r.base.String(), Selector: gen.EncHex(r.selector),
		Sender: snd, Recipient: rcv, Self: self, TotalSize: r.totalSize, IsPull: r.pull,
		ChannelID: datatransfer.ChannelID{Initiator: ini, Responder: resp, ID: datatransfer.TransferID(r.tid)},
		Vouchers:  gen.VouchersStr(r.vouchers), Results: gen.VouchersStr(r.results)}
	v.BothPaused = v.InitPaused && v.RespPaused
	v.Other = r.other
	if r.selfInit {
		v.SelfPaused = v.InitPaused
	} else {
		v.SelfPaused = v.RespPaused
	}
	v.Voucher = gen.VoucherStr(r.vouchers[0])
	v.LastVoucher = gen.VoucherStr(r.vouchers[len(r.vouchers)-1])
	v.LastResult = emptyVoucherStr
	if len(r.results) > 0 {
		v.LastResult = gen.VoucherStr(r.results[len(r.results)-1])
	}
	if r.hasStages {
		var b strings.Builder
		for _, s := range r.stages {
			fmt.Fprintf(&b, "[%s|%s|%d|%d", s.name, s.desc, s.created, s.updated)
			for _, l := range s.logs {
				fmt.Fprintf(&b, "|%q@%d", l.msg, l.at)
			}
			b.WriteString("]")
		}
		v.Stages = b.String()
	}
	return v
}

func drawV2(t *rapid.T, i int) v2rec {
	r := v2rec{
		selfInit: rapid.Bool().Draw(t, "selfInit"), pull: rapid.Bool().Draw(t, "pull"),
		other: gen.Peer(rapid.IntRange(1, 3).Draw(t, "other")), tid: uint64(2000 + i),
		base: gen.Cid().Draw(t, "base"), selector: gen.Node(gen.NodeOpts{}).Draw(t, "selector"),
		totalSize: rapid.Uint64().Draw(t, "totalSize"),
		status:    uint64(rapid.IntRange(0, 18).Draw(t, "status")),
		queued:    rapid.Uint64().Draw(t, "queued"), sent: rapid.Uint64().Draw(t, "sent"), received: rapid.Uint64().Draw(t, "received"),
		message: rapid.StringN(0, 40, 200).Draw(t, "message"),
		rIdx:    rapid.Int64Min(0).Draw(t, "rIdx"), qIdx: rapid.Int64Min(0).Draw(t, "qIdx"), sIdx: rapid.Int64Min(0).Draw(t, "sIdx"),
		limit: rapid.Uint64().Draw(t, "limit"), reqFinal: rapid.Bool().Draw(t, "reqFinal"),
		keyPerm: rapid.SliceOfN(rapid.IntRange(0, 21), 0, 22).Draw(t, "keyPerm"),
	}
	if rapid.IntRange(0, 2).Draw(t, "depStatus") == 0 {
		r.status = uint64(rapid.SampledFrom([]int{11, 12, 13}).Draw(t, "deprecatedStatus"))
	}
	if rapid.Bool().Draw(t, "small") {
		r.queued, r.sent, r.received = r.queued%100000, r.sent%100000, r.received%100000
		r.rIdx, r.qIdx, r.sIdx = r.rIdx%1000, r.qIdx%1000, r.sIdx%1000
		r.limit %= 100000
	}
	for j := rapid.IntRange(1, 3).Draw(t, "nVouchers"); j > 0; j-- {
		r.vouchers = append(r.vouchers, gen.Voucher(gen.NodeOpts{}).Draw(t, "voucher"))
	}
	for j := rapid.IntRange(0, 3).Draw(t, "nResults"); j > 0; j-- {
		r.results = append(r.results, gen.Voucher(gen.NodeOpts{}).Draw(t, "result"))
	}
	r.hasStages = rapid.IntRange(0, 4).Draw(t, "hasStages") != 0
	if r.hasStages {
		for j := rapid.IntRange(0, 4).Draw(t, "nStages"); j > 0; j-- {
			s := v2stage{name: rapid.StringN(0, 12, 40).Draw(t, "stageName"), desc: rapid.StringN(0, 12, 40).Draw(t, "stageDesc"),
				created: rapid.Int64Range(0, 1<<62).Draw(t, "created"), updated: rapid.Int64Range(0, 1<<62).Draw(t, "updated")}
			for k := rapid.IntRange(0, 4).Draw(t, "nLogs"); k > 0; k-- {
				s.logs = append(s.logs, v2log{msg: rapid.StringN(0, 30, 100).Draw(t, "log"), at: rapid.Int64Range(0, 1<<62).Draw(t, "logAt")})
			}
			r.stages = append(r.stages, s)
		}
	}
	return r
}

func v2store(self peer.ID, recs []v2rec) *dbl.RecDatastore {
	ds := dbl.NewRecDatastore()
	ds.SetRaw("/versions/current", []byte("2"))
	for _, r := range recs {
		ds.SetRaw("/2/"+r.chid(self).String(), r.encode(self))
	}
	return ds
}

func keysWithPrefix(ds *dbl.RecDatastore, prefix string) map[string][]byte {
	out := map[string][]byte{}
	for k, v := range ds.Snapshot() {
		if strings.HasPrefix(k, prefix) {
			out[k] = v
		}
	}
	return out
}

// TestC13_Migrate: version-2 stores written by the independent encoder.
func TestC13_Migrate(t *testing.T) {
	sp := stats.For("C13")
	sp.SetRule("mig: a version-2 datastore (/versions/current = 2, 0..6 records under /2/<channel id>) written by the harness's own CBOR encoder: every status value 0..18 incl. the three deprecated paused ones, counters over uint64, block totals over non-negative int64, arbitrary IPLD vouchers / results / selector, stage log absent or 0..4 stages x 0..4 lines, all four roles, generated map-key order. Oracle after Start: listed channels == generated ones, every accessor == generated field (deprecated paused statuses -> Ongoing + flags), stages equal line by line; migrated non-terminal channels then take events like native ones (frame / pause / probe oracles) and persist them across reopen; a second Start on the migrated store changes no byte and /2 is empty; before Start every operation refuses and writes nothing; readiness listeners are called once with the outcome (also for a store with an undecodable record). Non-trivial: >=1 record with a deprecated paused status or a non-empty stage log; distinct by the multiset of statuses")
	rapid.Check(t, func(t *rapid.T) {
		self := gen.Peer(0)
		n := rapid.IntRange(0, 6).Draw(t, "records")
		var recs []v2rec
		for i := 0; i < n; i++ {
			recs = append(recs, drawV2(t, i))
		}
		ds := v2store(self, recs)
		var log []string
		for i, r := range recs {
			log = append(log, fmt.Sprintf("record %d: %s", i, r.wantVec(self).Full()))
		}
		// gate: before Start every operation refuses and writes nothing
		env := dbl.NewEnv(self)
		pub := newPubLog()
		chs, err := channels.New(ds, pub.record, env, self)
		if err != nil {
			t.Fatalf("HARNESS channels.New: %v", err)
		}
		someID := datatransfer.ChannelID{Initiator: self, Responder: gen.Peer(1), ID: 5}
		if len(recs) > 0 {
			someID = recs[0].chid(self)
		}
		gate := map[string]error{}
		_, gate["CreateNew"] = chs.CreateNew(self, 5, simpleCid(1), strNode("s"), smallVoucher("T", "v"), self, self, gen.Peer(1))
		_, gate["GetByID"] = chs.GetByID(context.Background(), someID)
		_, gate["InProgress"] = chs.InProgress()
		_, gate["HasChannel"] = chs.HasChannel(someID)
		gate["Open"] = chs.Open(someID)
		gate["Accept"] = chs.Accept(someID)
		gate["Cancel"] = chs.Cancel(someID)
		gate["DataReceived"] = chs.DataReceived(someID, simpleCid(2), 10, 1, true)
		gate["NewVoucher"] = chs.NewVoucher(someID, smallVoucher("T", "v"))
		for op, e := range gate {
			if e == nil {
				mfail(t, log, "C13/gate-open", "%s succeeded before migration ran", op)
			}
		}
		if ds.LogLen() != 0 {
			mfail(t, log, "C13/gate-wrote", "%d datastore writes before migration ran", ds.LogLen())
		}
		if err := chs.Start(context.Background()); err != nil {
			mfail(t, log, "C13/migration-failed", "Start: %v", err)
		}
		listed, err := chs.InProgress()
		if err != nil {
			mfail(t, log, "C13/list-failed", "InProgress after migration: %v", err)
		}
		if len(listed) != len(recs) {
			mfail(t, log, "C13/channel-set", "%d channels listed after migration, %d records written", len(listed), len(recs))
		}
		var statuses []int
		nontrivial := false
		nTerminal, nReqFinal := 0, 0
		for i, r := range recs {
			chid := r.chid(self)
			st, ok := listed[chid]
			if !ok {
				key := "C13/channel-missing"
				if p := os.Getenv("VERIF_PROP"); p != "" && p != "C13" {
					// the same observation, named for the property this run decides
					key = p + "/channel-not-under-its-id-after-upgrade"
				}
				mfail(t, log, key, "record %d (%s) not listed after migration", i, chidStr(chid))
			}
			got, verr := vecOf(st)
			if verr != nil {
				mfail(t, log, "C19/accessor-panic", "%v (migrated channel)", verr)
			}
			want := r.wantVec(self)
			// the same comparison, stated for the properties an upgrade must not break either
			switch os.Getenv("VERIF_PROP") {
			case "C02":
				if isTerminal(want.Status) && got.Status != want.Status {
					mfail(t, log, "C02/terminal-changed-by-upgrade", "record %d was %s before the store upgrade and is %s after it", i, datatransfer.Statuses[want.Status], datatransfer.Statuses[got.Status])
				}
			case "C19":
				// the views of a channel read from an upgraded store agree with how it was created
				if got.IsPull != (got.ChannelID.Initiator == got.Recipient) || got.IsPull != want.IsPull || got.Sender != want.Sender ||
					got.Recipient != want.Recipient || got.Other == got.Self || got.Self != want.Self || got.Other != want.Other || got.ChannelID != want.ChannelID {
					mfail(t, log, "C19/identity-views-after-upgrade", "record %d: pull=%v chid=%s self=%s other=%s snd=%s rcv=%s, created as pull=%v chid=%s self=%s other=%s snd=%s rcv=%s",
						i, got.IsPull, chidStr(got.ChannelID), got.Self, got.Other, got.Sender, got.Recipient, want.IsPull, chidStr(want.ChannelID), want.Self, want.Other, want.Sender, want.Recipient)
				}
				if len(got.Vouchers) == 0 || got.Voucher != got.Vouchers[0] || got.LastVoucher != got.Vouchers[len(got.Vouchers)-1] ||
					(len(got.Results) == 0 && got.LastResult != emptyVoucherStr) || (len(got.Results) > 0 && got.LastResult != got.Results[len(got.Results)-1]) {
					mfail(t, log, "C19/voucher-views-after-upgrade", "record %d: first %s last %s lastResult %s, logs %v / %v", i, got.Voucher, got.LastVoucher, got.LastResult, got.Vouchers, got.Results)
				}
			case "C06":
				if got.Core() != want.Core() {
					mfail(t, log, "C06/state-changed-by-upgrade", "record %d reads back after the store upgrade as a state that was never current:\n got  %s\n want %s", i, got.Core(), want.Core())
				}
			case "C08":
				if got.DataLimit != want.DataLimit || got.Queued != want.Queued || got.Received != want.Received {
					mfail(t, log, "C08/limit-or-progress-changed-by-upgrade", "record %d: limit %d queued %d received %d after the store upgrade, was limit %d queued %d received %d", i, got.DataLimit, got.Queued, got.Received, want.DataLimit, want.Queued, want.Received)
				}
			case "C18":
				// identities survive the upgrade: every record is found under its own channel id, so no two collide
				if got.ChannelID != want.ChannelID {
					mfail(t, log, "C18/channel-id-changed-by-upgrade", "record %d reports channel id %s after the store upgrade, was %s", i, chidStr(got.ChannelID), chidStr(want.ChannelID))
				}
			case "C07":
				if got.Queued != want.Queued || got.Sent != want.Sent || got.Received != want.Received || got.QueuedIdx != want.QueuedIdx || got.SentIdx != want.SentIdx || got.ReceivedIdx != want.ReceivedIdx {
					mfail(t, log, "C07/totals-changed-by-upgrade", "record %d: byte totals / block indexes differ after the store upgrade:\n got  %s\n want %s", i, got.Core(), want.Core())
				}
			case "C10":
				if got.Queued != want.Queued || got.Sent != want.Sent || got.Received != want.Received || got.QueuedIdx != want.QueuedIdx || got.SentIdx != want.SentIdx || got.ReceivedIdx != want.ReceivedIdx || got.Voucher != want.Voucher {
					mfail(t, log, "C10/progress-changed-by-upgrade", "record %d: recorded progress or opening voucher differ after the store upgrade:\n got  %s\n want %s", i, got.Core(), want.Core())
				}
			case "C11":
				if got.InitPaused != want.InitPaused || got.RespPaused != want.RespPaused || got.BothPaused != want.BothPaused || got.SelfPaused != want.SelfPaused {
					mfail(t, log, "C11/pause-flags-changed-by-upgrade", "record %d: initiator/responder/both/self paused = %v/%v/%v/%v after the store upgrade, was %v/%v/%v/%v", i, got.InitPaused, got.RespPaused, got.BothPaused, got.SelfPaused, want.InitPaused, want.RespPaused, want.BothPaused, want.SelfPaused)
				}
			case "C05":
				// who initiated a channel, and in which direction, decides which messages are honoured on it
				if got.ChannelID != want.ChannelID || got.IsPull != want.IsPull || got.Self != want.Self || got.Other != want.Other {
					mfail(t, log, "C05/channel-roles-changed-by-upgrade", "record %d: chid=%s pull=%v self=%s other=%s after the store upgrade, created as chid=%s pull=%v self=%s other=%s",
						i, chidStr(got.ChannelID), got.IsPull, got.Self, got.Other, chidStr(want.ChannelID), want.IsPull, want.Self, want.Other)
				}
			case "C03":
				if want.ReqFinal && !got.ReqFinal {
					mfail(t, log, "C03/finalization-requirement-lost-by-upgrade", "record %d required finalization before the store upgrade and does not after it", i)
				}
			}
			if isTerminal(want.Status) {
				stats.For("C02").Class("terminal_record_through_store_upgrade")
				nTerminal++
			}
			if want.ReqFinal {
				stats.For("C03").Class("finalization_requirement_through_store_upgrade")
				nReqFinal++
			}
			if got.Core() != want.Core() {
				mfail(t, log, "C13/field-not-preserved", "record %d differs after migration:\n got  %s\n want %s", i, got.Core(), want.Core())
			}
			if r.hasStages && got.Stages != want.Stages {
				mfail(t, log, "C13/stages-not-preserved", "record %d stage log differs:\n got  %s\n want %s", i, got.Stages, want.Stages)
			}
			st2, err := chs.GetByID(context.Background(), chid)
			if err != nil {
				mfail(t, log, "C13/query-failed", "GetByID(record %d): %v", i, err)
			}
			if g2, _ := vecOf(st2); g2.Full() != got.Full() {
				mfail(t, log, "C13/query-differs", "GetByID and InProgress disagree for record %d", i)
			}
			statuses = append(statuses, int(r.status))
			if r.status >= 11 && r.status <= 13 || (r.hasStages && len(r.stages) > 0) {
				nontrivial = true
			}
		}
		if len(keysWithPrefix(ds, "/2/")) != 0 {
			mfail(t, log, "C13/old-records-left", "%d records left under /2 after migration", len(keysWithPrefix(ds, "/2/")))
		}
		if string(ds.Raw("/versions/current")) != "3" {
			mfail(t, log, "C13/version-key", "version key is %q after migration", ds.Raw("/versions/current"))
		}
		_ = chs.Stop(context.Background())
		// second start on the migrated store: nothing changes
		before3 := keysWithPrefix(ds, "/3/")
		w0 := ds.LogLen()
		chs2, _ := channels.New(ds, pub.record, env, self)
		if err := chs2.Start(context.Background()); err != nil {
			mfail(t, log, "C13/second-start-failed", "second Start: %v", err)
		}
		after3 := keysWithPrefix(ds, "/3/")
		if len(after3) != len(before3) {
			mfail(t, log, "C13/second-start-changed", "second Start changed the number of records")
		}
		for k, v := range before3 {
			if !sameBytes(v, after3[k]) {
				mfail(t, log, "C13/second-start-changed", "second Start rewrote %s", k)
			}
		}
		for _, op := range ds.Log()[w0:] {
			for _, it := range op.Items {
				if strings.HasPrefix(it.Key, "/3/") || strings.HasPrefix(it.Key, "/2/") {
					mfail(t, log, "C13/second-start-wrote", "second Start wrote %s", it.Key)
				}
			}
		}
		_ = chs2.Stop(context.Background())
		// migrated channels accept further events and persist like native ones
		if len(recs) > 0 {
			ri := rapid.IntRange(0, len(recs)-1).Draw(t, "drive")
			r := recs[ri]
			if !isTerminal(r.wantVec(self).Status) && !isCleanup(r.wantVec(self).Status) {
				rig := &fsmRig{self: self, ds: ds, env: dbl.NewEnv(self), pub: newPubLog(), fence: fenceChid(self)}
				rig.open(t, true)
				spec := chanSpec{SelfInitiator: r.selfInit, Pull: r.pull, Other: r.other, TID: datatransfer.TransferID(r.tid), Base: r.base, Selector: r.selector, Voucher: r.vouchers[0]}
				h := &hist{t: t, rig: rig, oracles: []oracle{oFrame{}, newOPause(), newOProbe(), newOCleanup()}}
				st, err := rig.flush(r.chid(self))
				if err != nil {
					mfail(t, log, "C13/query-failed", "%v", err)
				}
				v0, _ := vecOf(st)
				h.chans = []*chanCtx{{idx: 0, spec: spec, chid: r.chid(self), last: v0}}
				h.log = log
				var nextIdx int64 = 1 << 40
				applied := 0
				for k := rapid.IntRange(1, 8).Draw(t, "events"); k > 0 && !isTerminal(h.chans[0].last.Status); k-- {
					ws := []weighted{{"PauseInitiator", 2}, {"ResumeInitiator", 2}, {"PauseResponder", 2}, {"ResumeResponder", 2}, {"NewVoucher", 2}, {"NewVoucherResult", 2}, {"Disconnected", 1}, {"Restart", 1}, {"SetDataLimit", 1}, {"Cancel", 2}, {"Error", 1}, {"Accept", 1}, {"TransferInitiated", 1}}
					s := h.do(fill(t, Act{Kind: pick(t, ws, "mkind")}, &nextIdx))
					applied += len(s.entries)
				}
				h.doReopen()
				h.close()
				if applied > 0 {
					sp.Class("migrated_channel_driven")
				}
			}
		}
		sp.Eval()
		sort.Ints(statuses)
		switch p := os.Getenv("VERIF_PROP"); {
		case p == "C02":
			stats.For("C02").Eval()
			if nTerminal > 0 {
				stats.For("C02").Nontrivial(stats.FP("upgrade", fmt.Sprint(statuses)))
			}
		case p == "C19":
			stats.For("C19").Eval()
			stats.For("C19").Class("views_after_store_upgrade")
			if n > 0 {
				stats.For("C19").Nontrivial(stats.FP("upgrade", fmt.Sprint(statuses), n))
			}
		case p == "C06" || p == "C07" || p == "C08" || p == "C09" || p == "C10" || p == "C11" || p == "C18":
			stats.For(p).Eval()
			stats.For(p).Class("through_store_upgrade")
			if n > 0 {
				stats.For(p).Nontrivial(stats.FP("upgrade", p, fmt.Sprint(statuses), n))
			}
		case p == "C05":
			stats.For("C05").Eval()
			stats.For("C05").Class("channel_roles_through_store_upgrade")
			if n > 0 {
				stats.For("C05").Nontrivial(stats.FP("upgrade", fmt.Sprint(statuses), n))
			}
		case p == "C03":
			stats.For("C03").Eval()
			if nReqFinal > 0 {
				stats.For("C03").Nontrivial(stats.FP("upgrade", fmt.Sprint(statuses), nReqFinal))
			}
		}
		if nontrivial {
			fp := stats.FP(fmt.Sprint(statuses))
			sp.Nontrivial(fp)
			if len(log) > 3 {
				log = log[:3]
			}
			sp.Sample(fp, map[string]any{"engine": "mig", "records": n, "statuses": statuses, "first_records": log})
		}
		sp.ClassN("records", n)
	})
}

// TestC13_Ready: readiness is announced once, with the migration outcome, and the gate stays shut on failure.
func TestC13_Ready(t *testing.T) {
	sp := stats.For("C13")
	rapid.Check(t, func(t *rapid.T) {
		self := gen.Peer(0)
		var recs []v2rec
		for i := rapid.IntRange(0, 3).Draw(t, "records"); i > 0; i-- {
			recs = append(recs, drawV2(t, i))
		}
		ds := v2store(self, recs)
		kind := rapid.SampledFrom([]string{"v2", "v2-broken-record", "empty", "already-v3"}).Draw(t, "store")
		switch kind {
		case "v2-broken-record":
			ds.SetRaw("/2/"+datatransfer.ChannelID{Initiator: self, Responder: gen.Peer(2), ID: 666}.String(), []byte{0xa1, 0x66, 0x53, 0x74, 0x61, 0x74, 0x75, 0x73, 0x61, 0x78}) // {"Status": "x"}
		case "empty":
			ds = dbl.NewRecDatastore()
		case "already-v3":
			// migrate once with a throw-away instance
			c0, _ := channels.New(ds, func(datatransfer.Event, datatransfer.ChannelState) {}, dbl.NewEnv(self), self)
			if err := c0.Start(context.Background()); err != nil {
				t.Fatalf("HARNESS pre-migration: %v", err)
			}
			_ = c0.Stop(context.Background())
		}
		var log []string
		log = append(log, fmt.Sprintf("store kind %s with %d records", kind, len(recs)))
		tr, net := dbl.NewTransport(), dbl.NewNetwork(self)
		mgr, err := dtimpl.NewDataTransfer(ds, net, tr)
		if err != nil {
			t.Fatalf("HARNESS NewDataTransfer: %v", err)
		}
		nl := rapid.IntRange(1, 4).Draw(t, "listeners")
		var mu sync.Mutex
		calls := make([][]error, nl)
		done := make(chan struct{}, 16)
		for i := 0; i < nl; i++ {
			i := i
			mgr.OnReady(func(err error) {
				mu.Lock()
				calls[i] = append(calls[i], err)
				mu.Unlock()
				done <- struct{}{}
			})
		}
		// gate before Start
		w0 := ds.LogLen()
		if _, err := mgr.OpenPushDataChannel(bg(), gen.Peer(1), smallVoucher("T", "v"), simpleCid(1), strNode("s")); err == nil {
			mfail(t, log, "C13/gate-open", "OpenPushDataChannel succeeded before Start")
		}
		if _, err := mgr.InProgressChannels(bg()); err == nil {
			mfail(t, log, "C13/gate-open", "InProgressChannels succeeded before Start")
		}
		if ds.LogLen() != w0 {
			mfail(t, log, "C13/gate-wrote", "manager wrote to the store before Start")
		}
		mu.Lock()
		for i := range calls {
			if len(calls[i]) != 0 {
				mfail(t, log, "C13/ready-before-start", "readiness announced before Start")
			}
		}
		mu.Unlock()
		if err := mgr.Start(bg()); err != nil {
			t.Fatalf("HARNESS Start: %v", err)
		}
		for i := 0; i < nl; i++ {
			select {
			case <-done:
			case <-time.After(watchdog):
				mfail(t, log, "C13/ready-not-announced", "readiness not announced to all listeners within %s", watchdog)
			}
		}
		// give a duplicate announcement the chance to show up
		select {
		case <-done:
			mfail(t, log, "C13/ready-twice", "a readiness listener was called more than once")
		case <-time.After(2 * time.Millisecond):
		}
		wantErr := kind == "v2-broken-record"
		mu.Lock()
		for i := range calls {
			if len(calls[i]) != 1 {
				mfail(t, log, "C13/ready-count", "listener %d called %d times", i, len(calls[i]))
			}
			if (calls[i][0] != nil) != wantErr {
				mfail(t, log, "C13/ready-outcome", "listener %d got %v for a %s store", i, calls[i][0], kind)
			}
		}
		mu.Unlock()
		m, lerr := mgr.InProgressChannels(bg())
		if wantErr {
			if lerr == nil {
				mfail(t, log, "C13/gate-open-after-failure", "operations work although the migration failed")
			}
			if _, err := mgr.OpenPushDataChannel(bg(), gen.Peer(1), smallVoucher("T", "v"), simpleCid(1), strNode("s")); err == nil {
				mfail(t, log, "C13/gate-open-after-failure", "OpenPushDataChannel works although the migration failed")
			}
		} else {
			if lerr != nil {
				mfail(t, log, "C13/list-failed", "InProgressChannels after ready: %v", lerr)
			}
			want := len(recs)
			if kind == "empty" {
				want = 0
			}
			if len(m) != want {
				mfail(t, log, "C13/channel-set", "%d channels listed, want %d", len(m), want)
			}
		}
		ctx, cancel := wctx()
		_ = mgr.Stop(ctx)
		cancel()
		sp.Eval()
		fp := stats.FP("ready", kind, nl, len(recs))
		sp.Nontrivial(fp)
		sp.Class("ready_" + kind)
		if sp.WantSample() {
			sp.Sample(fp, map[string]any{"engine": "mig", "case": log, "listeners": nl})
		}
		_ = basicnode.NewString
	})
}
