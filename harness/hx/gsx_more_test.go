package hx

import (
	"context"
	"errors"
	"fmt"
	"os"
	"sync"
	"sync/atomic"
	"testing"
	"time"

	"github.com/ipfs/go-graphsync"
	"github.com/ipld/go-ipld-prime/node/basicnode"
	"pgregory.net/rapid"

	datatransfer "github.com/filecoin-project/go-data-transfer/v2"
	"github.com/filecoin-project/go-data-transfer/v2/message"
	"github.com/filecoin-project/go-data-transfer/v2/transport/graphsync/extension"

	"verif/harness/dbl"
	"verif/harness/gen"
	"verif/harness/stats"
)

// within runs f and reports whether it returned within the watchdog.
func within(f func()) bool {
	done := make(chan struct{})
	go func() {
		defer close(done)
		f()
	}()
	select {
	case <-done:
		return true
	case <-time.After(watchdog):
		return false
	}
}

// TestC10_GsxPending: messages queued while the requester was away are delivered once on the next request.
func TestC10_GsxPending(t *testing.T) {
	sp := stats.For("C10")
	rapid.Check(t, func(t *rapid.T) {
		r := newGsRig(t)
		m := &gsModel{t: t, r: r, owner: map[graphsync.RequestID]*gch{}}
		role := rapid.SampledFrom([]string{"receivePull", "createPush"}).Draw(t, "role")
		c := &gch{role: role, other: gen.Peer(1), tid: 10}
		c.chid = chidFor(r.self, role, c.other, c.tid)
		m.chans = []*gch{c}
		m.logf("channel %s %s", role, chidStr(c.chid))
		m.opIncoming(c, true, false)
		rounds := rapid.IntRange(1, 3).Draw(t, "rounds")
		queuedTotal := 0
		for i := 0; i < rounds; i++ {
			// the requester goes away
			m.logf("requestor cancelled")
			r.gs.RequestorCancelledListener(c.other, &dbl.ReqData{RID: *c.current})
			c.reqCancel = true
			k := rapid.IntRange(0, 3).Draw(t, "resumes")
			g0 := r.gs.Len()
			for j := 0; j < k; j++ {
				var umsg datatransfer.Message
				switch rapid.IntRange(0, 2).Draw(t, "msgKind") {
				case 0:
					umsg = message.UpdateResponse(c.tid, false)
				case 1:
					v := datatransfer.TypedVoucher{Type: "T/r", Voucher: basicnode.NewString(fmt.Sprint("r", j))}
					umsg, _ = message.VoucherResultResponse(c.tid, true, false, &v)
				default:
					umsg = message.UpdateRequest(c.tid, false)
				}
				m.logf("ResumeChannel with message while the requester is away")
				if err := r.tr.ResumeChannel(bg(), umsg, c.chid); err != nil {
					m.fail("C16/call-error", "ResumeChannel: %v", err)
				}
				c.pending = append(c.pending, msgKey(umsg))
				queuedTotal++
			}
			if r.gs.Len() != g0 {
				m.fail("C10/unpause-while-away", "resume while the requester is away touched graphsync")
			}
			if rapid.Bool().Draw(t, "pauseWhileAway") {
				if err := r.tr.PauseChannel(bg(), c.chid); err != nil || r.gs.Len() != g0 {
					m.fail("C10/pause-while-away", "pause while the requester is away: err=%v", err)
				}
			}
			// the requester comes back: 1..2 requests
			for j := rapid.IntRange(1, 2).Draw(t, "requestsBack"); j > 0; j-- {
				m.opIncoming(c, true, false) // checks: first gets exactly the queued messages, the next none
			}
		}
		sp.Eval()
		if queuedTotal > 0 {
			fp := stats.FP("pending", role, rounds, queuedTotal)
			sp.Nontrivial(fp)
			sp.Sample(fp, map[string]any{"engine": "gsx", "history": m.log})
			sp.Class("gsx_extensions_queued_while_requester_away")
		}
	})
}

// TestC11_GsxMatrix: every hook that calls the handler x every handler result.
func TestC11_GsxMatrix(t *testing.T) {
	sp := stats.For("C11")
	boom := errors.New("handler failed")
	rapid.Check(t, func(t *rapid.T) {
		r := newGsRig(t)
		m := &gsModel{t: t, r: r, owner: map[graphsync.RequestID]*gch{}}
		hook := rapid.SampledFrom([]string{"incoming-request", "incoming-request-response", "outgoing-block", "incoming-block", "incoming-response", "incoming-response-block-ext", "request-updated"}).Draw(t, "hook")
		result := rapid.SampledFrom([]string{"nil", "pause", "error"}).Draw(t, "result")
		var res error
		switch result {
		case "pause":
			res = datatransfer.ErrPause
		case "error":
			res = boom
		}
		// a channel whose request the hook will refer to
		role := map[string]string{"incoming-request": "receivePull", "incoming-request-response": "createPush", "outgoing-block": "receivePull", "incoming-block": "createPull", "incoming-response": "createPull", "incoming-response-block-ext": "createPull", "request-updated": "receivePull"}[hook]
		c := &gch{role: role, other: gen.Peer(1), tid: 10}
		c.chid = chidFor(r.self, role, c.other, c.tid)
		m.chans = []*gch{c}
		defer func() {
			for _, id := range m.allReqs {
				r.gs.Complete(id, nil)
			}
		}()
		var terminated []error
		paused := 0
		desc := fmt.Sprintf("%s hook with handler result %s", hook, result)
		m.logf("%s", desc)
		kindOf := map[string]string{"incoming-request": "request", "incoming-request-response": "response", "outgoing-block": "data-queued", "incoming-block": "data-received", "incoming-response": "response", "incoming-response-block-ext": "response", "request-updated": "request"}[hook]
		switch hook {
		case "incoming-request", "incoming-request-response":
			r.ev.SetResult(kindOf, res)
			a := &dbl.InReqActions{}
			rd := &dbl.ReqData{RID: graphsync.NewRequestID(), Exts: dbl.ExtMap([]graphsync.ExtensionData{{Name: extension.ExtensionDataTransfer1_1, Data: c.openMsg(false).ToIPLD()}})}
			if !within(func() { r.gs.IncomingRequestHook(c.other, rd, a) }) {
				m.fail("C20/hook-did-not-return", "%s did not return", desc)
			}
			terminated, paused = a.Terminated, a.Paused
			if result != "error" && a.Validated != 1 {
				m.fail("C16/incoming-request-actions", "%s: request not validated", desc)
			}
		default:
			if c.requester() {
				m.opOpen(c, 0)
			} else {
				m.opIncoming(c, true, false)
			}
			id := *c.current
			r.ev.SetResult(kindOf, res)
			b := &dbl.BlkData{L: linkOf(simpleCid(3)), Size: 10, OnWire: 10, Idx: 1}
			switch hook {
			case "outgoing-block":
				a := &dbl.OutBlockActions{}
				r.gs.OutgoingBlockHook(c.other, &dbl.ReqData{RID: id}, b, a)
				terminated, paused = a.Terminated, a.Paused
			case "incoming-block":
				a := &dbl.InBlockActions{}
				r.gs.IncomingBlockHook(c.other, &dbl.RespData{RID: id}, b, a)
				terminated, paused = a.Terminated, a.PausedReq
			case "incoming-response", "incoming-response-block-ext":
				name := extension.ExtensionIncomingRequest1_1
				if hook == "incoming-response-block-ext" {
					name = extension.ExtensionOutgoingBlock1_1
				}
				a := &dbl.InRespActions{}
				msg := message.UpdateResponse(c.tid, false)
				r.gs.IncomingResponseHook(c.other, &dbl.RespData{RID: id, Exts: dbl.ExtMap([]graphsync.ExtensionData{{Name: name, Data: msg.ToIPLD()}})}, a)
				terminated = a.Terminated
			case "request-updated":
				a := &dbl.ReqUpdatedActions{}
				msg := message.UpdateRequest(c.tid, false)
				r.gs.RequestUpdatedHook(c.other, &dbl.ReqData{RID: id}, &dbl.ReqData{RID: id, Typ: graphsync.RequestTypeUpdate, Exts: dbl.ExtMap([]graphsync.ExtensionData{{Name: extension.ExtensionDataTransfer1_1, Data: msg.ToIPLD()}})}, a)
				terminated = a.Terminated
			}
		}
		switch result {
		case "nil":
			if len(terminated) != 0 || paused != 0 {
				m.fail("C16/hook-terminated", "%s: terminated=%v paused=%d", desc, terminated, paused)
			}
		case "pause":
			// the "stay paused" signal: paused where the hook can, never terminated
			if len(terminated) != 0 {
				m.fail("C11/gs-response-hook/pause-signal-terminates", "%s: the pause signal terminated the graphsync request with %v", desc, terminated)
			}
			canPause := hook == "incoming-request" || hook == "incoming-request-response" || hook == "outgoing-block" || hook == "incoming-block"
			if canPause && paused != 1 {
				m.fail("C11/pause-signal-ignored", "%s: the pause signal did not pause (paused=%d)", desc, paused)
			}
		case "error":
			if len(terminated) == 0 || !errors.Is(terminated[0], boom) {
				m.fail("C16/handler-error-ignored", "%s: handler error did not terminate the request (terminated=%v)", desc, terminated)
			}
		}
		sp.Eval()
		fp := stats.FP("gsx-matrix", hook, result)
		sp.Nontrivial(fp)
		sp.Class("gsx_hook_result_matrix")
		if sp.WantSample() {
			sp.Sample(fp, map[string]any{"engine": "gsx", "case": desc})
		}
	})
}

// TestC09_Gsx: CloseChannel for every state of the underlying request.
func TestC09_Gsx(t *testing.T) {
	sp := stats.For("C09")
	rapid.Check(t, func(t *rapid.T) {
		r := newGsRig(t)
		m := &gsModel{t: t, r: r, owner: map[graphsync.RequestID]*gch{}}
		defer func() {
			for _, id := range m.allReqs {
				r.gs.Complete(id, nil)
			}
		}()
		role := rapid.SampledFrom(roles).Draw(t, "role")
		c := &gch{role: role, other: gen.Peer(1), tid: 10}
		c.chid = chidFor(r.self, role, c.other, c.tid)
		m.chans = []*gch{c}
		state := rapid.SampledFrom([]string{"never-started", "open", "closed-once", "cancelled-by-remote", "after-cleanup", "finished"}).Draw(t, "requestState")
		cancelResult := rapid.SampledFrom([]string{"nil", "not-found", "error"}).Draw(t, "gsCancelResult")
		m.logf("%s channel, request state %s, gs.Cancel result %s", role, state, cancelResult)
		switch state {
		case "never-started":
			if rapid.Bool().Draw(t, "viaStore") {
				_ = r.tr.UseStore(c.chid, cidLinkSystem())
			} else {
				r.tr.MaxLinks(c.chid, 10)
			}
			c.tracked = true
		default:
			if c.requester() {
				m.opOpen(c, 0)
			} else {
				m.opIncoming(c, true, false)
			}
		}
		switch state {
		case "closed-once":
			if !within(func() { _ = r.tr.CloseChannel(context.Background(), c.chid) }) {
				m.fail("C09/close-hang/request-absent", "first close did not return")
			}
			c.current = nil
		case "cancelled-by-remote":
			if c.requester() {
				// the responder cancelled: the request ends with an error on the requester
				r.gs.Complete(*c.liveReq, graphsync.RequestCancelledErr{})
				c.liveReq = nil
			} else {
				r.gs.RequestorCancelledListener(c.other, &dbl.ReqData{RID: *c.current})
				c.reqCancel = true
			}
		case "after-cleanup":
			r.tr.CleanupChannel(c.chid)
			c.tracked = false
		case "finished":
			if c.requester() {
				r.gs.Complete(*c.liveReq, nil)
				c.liveReq = nil
			} else {
				r.gs.CompletedResponseListener(c.other, &dbl.ReqData{RID: *c.current}, graphsync.RequestCompletedFull)
			}
		}
		switch cancelResult {
		case "not-found":
			r.gs.SetErr("cancel", graphsync.RequestNotFoundErr{})
		case "error":
			r.gs.SetErr("cancel", errors.New("cancel failed"))
		}
		g0 := r.gs.Len()
		var err error
		start := time.Now()
		if !within(func() { err = r.tr.CloseChannel(context.Background(), c.chid) }) {
			m.fail("C09/close-hang/request-absent", "CloseChannel(context.Background()) did not return within %s with the request %s", watchdog, state)
		}
		lat := time.Since(start)
		cancels := 0
		for _, call := range r.gs.Since(g0) {
			if call.Kind == "cancel" {
				cancels++
				if c.current == nil || call.ID != *c.current {
					m.fail("C16/cancel-wrong-request", "close cancelled %s which is not the channel's current request", call.ID)
				}
			}
		}
		wantCancel := 0
		if c.tracked && c.current != nil && !c.reqCancel {
			wantCancel = 1
		}
		if cancels != wantCancel {
			m.fail("C09/cancel-count", "close in state %s made %d gs.Cancel calls, want %d", state, cancels, wantCancel)
		}
		if !c.tracked && err == nil {
			m.fail("C16/untracked-channel-call", "close of an unknown channel returned nil")
		}
		if c.tracked && wantCancel == 1 && cancelResult == "error" && err == nil {
			m.fail("C09/cancel-error-swallowed", "gs.Cancel failed but CloseChannel returned nil")
		}
		if c.tracked && (wantCancel == 0 || cancelResult != "error") && err != nil {
			m.fail("C09/close-error", "CloseChannel in state %s (cancel result %s) returned %v", state, cancelResult, err)
		}
		sp.Eval()
		fp := stats.FP("gsx-close", role, state, cancelResult)
		if state != "open" {
			sp.Nontrivial(fp)
			sp.Sample(fp, map[string]any{"engine": "gsx", "history": m.log, "latency": lat.String()})
		}
		sp.Class("gsx_close_request_state_" + state)
	})
}

// TestC20_GsxHooks: every hook with every message kind returns (no self-deadlock), whatever it carries.
func TestC20_GsxHooks(t *testing.T) {
	sp := stats.For("C20")
	rapid.Check(t, func(t *rapid.T) {
		r := newGsRig(t)
		m := &gsModel{t: t, r: r, owner: map[graphsync.RequestID]*gch{}}
		defer func() {
			for _, id := range m.allReqs {
				r.gs.Complete(id, nil)
			}
		}()
		// the handler behaves like the manager for a cancel: it releases the transport channel.
		// For any other message the manager queries the channel's state machine (GetByID) and
		// waits for the answer; when that machine is just then running its cleanup handler
		// (the channel is completing, failing or being cancelled), the answer comes after
		// the handler's CleanupChannel call on the transport has returned.
		fsmCleaningUp := rapid.Bool().Draw(t, "stateMachineInCleanupHandler")
		var armed int32 // set once the channel is set up
		r.ev.OnCall = func(c dbl.EvCall) {
			if c.Msg == nil || (c.Kind != "request" && c.Kind != "response") {
				return
			}
			if c.Msg.IsCancel() && c.Kind == "request" {
				r.tr.CleanupChannel(c.Chid)
			} else if fsmCleaningUp && atomic.LoadInt32(&armed) == 1 {
				done := make(chan struct{})
				go func() {
					defer close(done)
					r.tr.CleanupChannel(c.Chid)
				}()
				<-done
			}
		}
		role := rapid.SampledFrom(roles).Draw(t, "role")
		c := &gch{role: role, other: gen.Peer(1), tid: 10}
		c.chid = chidFor(r.self, role, c.other, c.tid)
		m.chans = []*gch{c}
		established := rapid.Bool().Draw(t, "established")
		if established {
			if c.requester() {
				m.opOpen(c, 0)
			} else {
				m.opIncoming(c, true, false)
			}
		}
		kinds := append(append([]string{}, requestKinds...), responseKinds...)
		kind := rapid.SampledFrom(kinds).Draw(t, "kind")
		v := datatransfer.TypedVoucher{Type: "T/a", Voucher: basicnode.NewString("m")}
		msg := buildMsg(kind, c.tid, v, peerCid{c: simpleCid(1), pull: true})
		hook := rapid.SampledFrom([]string{"incoming-request", "incoming-response", "request-updated"}).Draw(t, "hook")
		name := rapid.SampledFrom([]graphsync.ExtensionName{extension.ExtensionIncomingRequest1_1, extension.ExtensionDataTransfer1_1, extension.ExtensionOutgoingBlock1_1}).Draw(t, "ext")
		exts := dbl.ExtMap([]graphsync.ExtensionData{{Name: name, Data: msg.ToIPLD()}})
		id := graphsync.NewRequestID()
		if c.current != nil && rapid.Bool().Draw(t, "onCurrentRequest") {
			id = *c.current
		}
		desc := fmt.Sprintf("%s hook carrying %s in %s (channel %s, established=%v, state machine in its cleanup handler=%v)", hook, kind, name, role, established, fsmCleaningUp)
		m.logf("%s", desc)
		atomic.StoreInt32(&armed, 1)
		ok := within(func() {
			switch hook {
			case "incoming-request":
				r.gs.IncomingRequestHook(c.other, &dbl.ReqData{RID: id, Exts: exts}, &dbl.InReqActions{})
			case "incoming-response":
				r.gs.IncomingResponseHook(c.other, &dbl.RespData{RID: id, Exts: exts}, &dbl.InRespActions{})
			case "request-updated":
				r.gs.RequestUpdatedHook(c.other, &dbl.ReqData{RID: id}, &dbl.ReqData{RID: id, Exts: exts, Typ: graphsync.RequestTypeUpdate}, &dbl.ReqUpdatedActions{})
			}
		})
		if !ok {
			if fsmCleaningUp && !msg.IsCancel() {
				m.fail("C20/hook-holds-channel-lock-while-manager-waits-for-state-machine", "%s did not return within %s: the manager waits for the channel's state machine, whose cleanup handler waits in CleanupChannel for the channel lock that the hook holds", desc, watchdog)
			}
			m.fail("C20/gs-incoming-request/cancel-self-deadlock", "%s did not return within %s", desc, watchdog)
		}
		// the transport is still usable afterwards
		if !within(func() { r.tr.CleanupChannel(c.chid); _ = r.tr.PauseChannel(bg(), c.chid) }) {
			m.fail("C20/transport-wedged", "transport calls block after %s", desc)
		}
		sp.Eval()
		fp := stats.FP("gsx-hooks", hook, kind, name, established, fsmCleaningUp)
		sp.Nontrivial(fp)
		sp.Class("gsx_hook_x_message_kind")
		if sp.WantSample() {
			sp.Sample(fp, map[string]any{"engine": "gsx", "case": desc})
		}
	})
}

// TestC16_GsxCleanupRace: CleanupChannel racing with an in-flight incoming-request
// hook (the handler is parked inside OnRequestReceived / OnResponseReceived while
// another goroutine cleans the channel up). Whatever the order, after both have
// returned the channel is cleaned up and its request must be silent.
func TestC16_GsxCleanupRace(t *testing.T) {
	sp := stats.For("C16")
	rapid.Check(t, func(t *rapid.T) {
		r := newGsRig(t)
		m := &gsModel{t: t, r: r, owner: map[graphsync.RequestID]*gch{}}
		role := rapid.SampledFrom([]string{"receivePull", "createPush"}).Draw(t, "role")
		c := &gch{role: role, other: gen.Peer(1), tid: 10}
		c.chid = chidFor(r.self, role, c.other, c.tid)
		withStore := rapid.Bool().Draw(t, "store")
		if withStore {
			_ = r.tr.UseStore(c.chid, cidLinkSystem())
			c.store, c.tracked = true, true
		}
		earlier := rapid.IntRange(0, 2).Draw(t, "earlierRequests")
		m.chans = []*gch{c}
		for i := 0; i < earlier; i++ {
			m.opIncoming(c, true, false)
		}
		park := time.Duration(rapid.IntRange(0, 3).Draw(t, "parkMs")) * time.Millisecond
		// the manager applies the channel's transport options from inside the handler
		handlerCallsTransport := rapid.Bool().Draw(t, "handlerCallsTransport")
		cleaned := make(chan struct{})
		var once bool
		r.ev.OnCall = func(call dbl.EvCall) {
			if once || (call.Kind != "request" && call.Kind != "response") {
				return
			}
			once = true
			go func() {
				r.tr.CleanupChannel(c.chid)
				close(cleaned)
			}()
			// stay inside the handler while the cleanup tries to run
			select {
			case <-cleaned:
			case <-time.After(park + 200*time.Microsecond):
			}
			if handlerCallsTransport {
				r.tr.MaxLinks(c.chid, 7)
			}
		}
		id := graphsync.NewRequestID()
		rd := &dbl.ReqData{RID: id, Exts: dbl.ExtMap([]graphsync.ExtensionData{{Name: extension.ExtensionDataTransfer1_1, Data: c.openMsg(earlier > 0).ToIPLD()}})}
		m.logf("incoming request %s for %s while CleanupChannel runs concurrently (%d earlier requests, store=%v)", id, chidStr(c.chid), earlier, withStore)
		if !within(func() { r.gs.IncomingRequestHook(c.other, rd, &dbl.InReqActions{}) }) {
			m.fail("C20/hook-did-not-return", "incoming-request hook did not return while a cleanup ran concurrently (handler calls into the transport: %v):\n%s", handlerCallsTransport, allStacks())
		}
		select {
		case <-cleaned:
		case <-time.After(watchdog):
			m.fail("C20/cleanup-did-not-return", "CleanupChannel did not return after the hook finished")
		}
		r.ev.OnCall = nil
		// the channel has been cleaned up: every callback for its requests must be silent now
		e0 := r.ev.Len()
		ids := []graphsync.RequestID{id}
		for rid := range m.owner {
			ids = append(ids, rid)
		}
		for _, rid := range ids {
			b := &dbl.BlkData{L: linkOf(simpleCid(3)), Size: 10, OnWire: 10, Idx: 1}
			r.gs.IncomingProcessingListener(c.other, &dbl.ReqData{RID: rid}, 1)
			r.gs.OutgoingBlockHook(c.other, &dbl.ReqData{RID: rid}, b, &dbl.OutBlockActions{})
			r.gs.BlockSentListener(c.other, &dbl.ReqData{RID: rid}, b)
			r.gs.NetworkErrorListener(c.other, &dbl.ReqData{RID: rid}, errors.New("net"))
			r.gs.CompletedResponseListener(c.other, &dbl.ReqData{RID: rid}, graphsync.RequestCompletedFull)
		}
		r.gs.ReceiverErrorListener(c.other, errors.New("net"))
		time.Sleep(200 * time.Microsecond)
		if got := r.ev.Since(e0); len(got) != 0 {
			m.fail("C16/event-after-cleanup", "%d channel event(s) after the channel was cleaned up (first: %s for %s): a request mapping survived the cleanup", len(got), got[0].Kind, chidStr(got[0].Chid))
		}
		if withStore && len(r.gs.Stores()) != 0 {
			m.fail("C16/store-lifetime", "the channel's store is still registered after cleanup")
		}
		sp.Eval()
		stats.For("C20").Eval()
		stats.For("C20").Nontrivial(stats.FP("cleanup-race", role, earlier, withStore, park, handlerCallsTransport))
		fp := stats.FP("cleanup-race", role, earlier, withStore, park, handlerCallsTransport)
		sp.Nontrivial(fp)
		sp.Class("cleanup_racing_with_incoming_request_hook")
		if sp.WantSample() {
			sp.Sample(fp, map[string]any{"engine": "gsx", "history": m.log})
		}
	})
}

// TestC20_GsxLoop: graphsync serves Pause / Unpause on the same run loop that delivers
// the notifications arriving from the network. A notification that reached the loop
// first (the requester cancelled its request - which is what a restarting or closing
// requester does) is delivered before the call is served; the call must still return.
func TestC20_GsxLoop(t *testing.T) {
	sp := stats.For("C20")
	rapid.Check(t, func(t *rapid.T) {
		r := newGsRig(t)
		m := &gsModel{t: t, r: r, owner: map[graphsync.RequestID]*gch{}}
		// two channels on which the local node sends the data (it serves the graphsync requests)
		var chans []*gch
		for i := 0; i < 2; i++ {
			role := rapid.SampledFrom([]string{"receivePull", "createPush"}).Draw(t, "role")
			c := &gch{role: role, other: gen.Peer(1 + i), tid: datatransfer.TransferID(20 + i)}
			c.chid = chidFor(r.self, role, c.other, c.tid)
			chans = append(chans, c)
		}
		m.chans = chans
		for _, c := range chans {
			m.logf("channel %s %s", c.role, chidStr(c.chid))
			m.opIncoming(c, true, false)
		}
		n := rapid.IntRange(1, 6).Draw(t, "calls")
		crossed := 0
		for i := 0; i < n; i++ {
			c := chans[rapid.IntRange(0, 1).Draw(t, "channel")]
			ahead := rapid.SampledFrom([]string{"nothing", "cancel-of-this-request", "cancel-of-the-other-request", "both"}).Draw(t, "arrivedFirst")
			var delivered []*gch
			for _, o := range chans {
				if (o == c && (ahead == "cancel-of-this-request" || ahead == "both")) || (o != c && (ahead == "cancel-of-the-other-request" || ahead == "both")) {
					o := o
					rid := *o.current
					r.gs.QueueOnLoop(func() { r.gs.RequestorCancelledListener(o.other, &dbl.ReqData{RID: rid}) })
					delivered = append(delivered, o)
					if o == c {
						crossed++
					}
				}
			}
			// ... or the requester's next request for this channel (it restarted, or it resumed:
			// a requester-side unpause is a new graphsync request): the incoming-request hook
			// runs on the same loop
			newReq := rapid.IntRange(0, 3).Draw(t, "newRequestArrivedFirst") == 0
			var newID graphsync.RequestID
			if newReq {
				newID = graphsync.NewRequestID()
				rd := &dbl.ReqData{RID: newID, RootCid: simpleCid(1), Sel: strNode("sel"), Typ: graphsync.RequestTypeNew,
					Exts: dbl.ExtMap([]graphsync.ExtensionData{{Name: extension.ExtensionDataTransfer1_1, Data: c.openMsg(true).ToIPLD()}})}
				cc := c
				r.gs.QueueOnLoop(func() { r.gs.IncomingRequestHook(cc.other, rd, &dbl.InReqActions{}) })
				crossed++
				ahead += " + a new request for this channel"
			}
			call := rapid.SampledFrom([]string{"resume", "resume-with-message", "pause"}).Draw(t, "call")
			m.logf("%s(%s) while the loop first delivers: %s", call, chidStr(c.chid), ahead)
			umsg := message.UpdateResponse(c.tid, false)
			ok := within(func() {
				switch call {
				case "pause":
					_ = r.tr.PauseChannel(bg(), c.chid)
				case "resume":
					_ = r.tr.ResumeChannel(bg(), nil, c.chid)
				default:
					_ = r.tr.ResumeChannel(bg(), umsg, c.chid)
				}
			})
			if !ok {
				m.fail("C20/call-blocked-behind-graphsync-loop", "%s did not return within %s: it waits for graphsync's run loop while the loop waits, in a hook or listener of the same channel, for the channel lock the call holds", call, watchdog)
			}
			if call == "resume-with-message" && c.reqCancel {
				// the requester was already known to be away: the message waits for its next request
				c.pending = append(c.pending, msgKey(umsg))
			}
			// whatever the call did not make the loop deliver is delivered now
			if !within(func() { r.gs.OnLoop(func() {}) }) {
				m.fail("C20/graphsync-loop-blocked", "graphsync's run loop is still blocked in a notification after the call returned")
			}
			for _, o := range delivered {
				o.reqCancel = true
			}
			if newReq {
				// the new request is the channel's current one now; what was queued for the requester went out with it
				c.current = &newID
				m.owner[newID] = c
				m.allReqs = append(m.allReqs, newID)
				c.pending = nil
				c.reqCancel = false
			}
			// the requester comes back with a new request
			if rapid.Bool().Draw(t, "requesterBack") {
				for _, o := range chans {
					m.opIncoming(o, true, false)
				}
			}
		}
		sp.Eval()
		sp.Class("gsx_call_vs_run_loop")
		if crossed > 0 {
			fp := stats.FP("loop", m.log)
			sp.Nontrivial(fp)
			if sp.WantSample() {
				sp.Sample(fp, map[string]any{"engine": "gsx", "history": m.log})
			}
			sp.Class("gsx_cancel_notification_ahead_of_call")
		}
	})
}

// TestC20_GsxCancelUnconfirmed: go-graphsync (v0.18) never confirms the cancellation of
// a request that was pausing when it was cancelled (its release path records "paused"
// and forgets the pending termination), and its Cancel ignores the caller's context.
// A requester that paused and then restarts, closes or stops runs into exactly that.
// The transport's calls must still return, whatever context they were given.
func TestC20_GsxCancelUnconfirmed(t *testing.T) {
	sp := stats.For("C20")
	sp9 := stats.For("C09")
	rapid.Check(t, func(t *rapid.T) {
		r := newGsRig(t)
		defer r.gs.Release()
		m := &gsModel{t: t, r: r, owner: map[graphsync.RequestID]*gch{}}
		role := rapid.SampledFrom([]string{"createPull", "receivePush"}).Draw(t, "role")
		c := &gch{role: role, other: gen.Peer(1), tid: 30}
		c.chid = chidFor(r.self, role, c.other, c.tid)
		m.chans = []*gch{c}
		m.logf("channel %s %s", role, chidStr(c.chid))
		m.opOpen(c, 0)
		if rapid.Bool().Draw(t, "pauseFirst") {
			m.logf("PauseChannel (the request starts pausing)")
			_ = r.tr.PauseChannel(bg(), c.chid)
		}
		r.gs.SetCancelUnconfirmed(true)
		m.logf("from now on graphsync does not confirm cancellations")
		call := rapid.SampledFrom([]string{"restart", "close", "shutdown", "restart-then-shutdown", "close-then-shutdown"}).Draw(t, "call")
		start := time.Now()
		ok := within(func() {
			switch call {
			case "restart", "restart-then-shutdown":
				_ = r.tr.OpenChannel(bg(), c.other, c.chid, linkOf(simpleCid(1)), strNode("sel"), stubState{chid: c.chid, received: 1}, c.openMsg(true))
			case "close", "close-then-shutdown":
				_ = r.tr.CloseChannel(bg(), c.chid)
			}
			switch call {
			case "shutdown", "restart-then-shutdown", "close-then-shutdown":
				_ = r.tr.Shutdown(bg())
			}
		})
		m.logf("%s with a context that never ends returned=%v after %s", call, ok, time.Since(start).Round(time.Millisecond))
		if !ok {
			key := "C20/call-waits-for-unconfirmed-graphsync-cancel"
			if os.Getenv("VERIF_PROP") == "C09" {
				key = "C09/close-waits-for-unconfirmed-graphsync-cancel"
			}
			m.fail(key, "%s did not return within %s: it waits, with a context that never ends, for a cancel confirmation that graphsync never gives", call, watchdog)
		}
		sp.Eval()
		sp.Nontrivial(stats.FP("unconfirmed", role, call))
		sp.Class("gsx_cancel_never_confirmed")
		if os.Getenv("VERIF_PROP") == "C09" {
			sp9.Eval()
			sp9.Nontrivial(stats.FP("unconfirmed", role, call))
			sp9.Class("gsx_close_with_unconfirmed_cancel")
		}
		if sp.WantSample() {
			sp.Sample(stats.FP("unconfirmed", role, call), map[string]any{"engine": "gsx", "history": m.log})
		}
	})
}

// TestC20_GsxOpenRefused: the events handler refuses a channel in the outgoing-request
// hook (OnChannelOpened fails - the channel was ended meanwhile, or the manager is
// stopping). The hook runs while OpenChannel holds the channel; the call must return
// an error, the transport must stay usable and the refused request must be silent.
func TestC20_GsxOpenRefused(t *testing.T) {
	sp := stats.For("C20")
	rapid.Check(t, func(t *rapid.T) {
		r := newGsRig(t)
		m := &gsModel{t: t, r: r, owner: map[graphsync.RequestID]*gch{}}
		defer func() {
			for _, id := range m.allReqs {
				r.gs.Complete(id, nil)
			}
		}()
		role := rapid.SampledFrom([]string{"createPull", "receivePush"}).Draw(t, "role")
		c := &gch{role: role, other: gen.Peer(1), tid: 40}
		c.chid = chidFor(r.self, role, c.other, c.tid)
		m.chans = []*gch{c}
		restart := rapid.Bool().Draw(t, "afterAnEarlierOpen")
		if restart {
			m.opOpen(c, 0)
		}
		withStore := rapid.Bool().Draw(t, "store")
		if withStore {
			_ = r.tr.UseStore(c.chid, cidLinkSystem())
		}
		r.ev.SetResult("opened", errors.New("channel was ended"))
		m.logf("OpenChannel(%s) restart=%v store=%v while the handler refuses the channel", chidStr(c.chid), restart, withStore)
		g0 := r.gs.Len()
		var err error
		var st datatransfer.ChannelState
		if restart {
			st = stubState{chid: c.chid, received: 1}
		}
		ok := within(func() {
			err = r.tr.OpenChannel(bg(), c.other, c.chid, linkOf(simpleCid(1)), strNode("sel"), st, c.openMsg(restart))
		})
		if !ok {
			m.fail("C20/open-blocked-by-refusing-handler", "OpenChannel did not return within %s: the outgoing-request hook, refused by the handler, cleans the channel up while the open call that waits for the hook holds the channel", watchdog)
		}
		if err == nil {
			m.fail("C16/refused-open-succeeded", "OpenChannel returned nil although the handler refused the channel")
		}
		r.ev.SetResult("opened", nil)
		// the transport stays usable and the refused request is silent
		if !within(func() { _ = r.tr.PauseChannel(bg(), c.chid); r.tr.CleanupChannel(c.chid) }) {
			m.fail("C20/transport-wedged", "transport calls block after a refused open")
		}
		var rid *graphsync.RequestID
		for _, call := range r.gs.Since(g0) {
			if call.Kind == "request" {
				id := call.ID
				rid = &id
			}
		}
		if rid != nil {
			e0 := r.ev.Len()
			r.gs.IncomingBlockHook(c.other, &dbl.RespData{RID: *rid}, &dbl.BlkData{L: linkOf(simpleCid(2)), Size: 10, OnWire: 10, Idx: 1}, &dbl.InBlockActions{})
			if r.ev.Len() != e0 {
				m.fail("C16/event-after-cleanup", "a block of the refused request was reported to the handler")
			}
			m.allReqs = append(m.allReqs, *rid)
		}
		if len(r.gs.Stores()) != 0 {
			m.fail("C16/store-left-registered", "the channel's store is still registered after the refused open: %v", r.gs.Stores())
		}
		sp.Eval()
		sp.Nontrivial(stats.FP("open-refused", role, restart, withStore))
		sp.Class("gsx_open_refused_by_handler")
	})
}

// TestC20_GsxDiagnosticsRace: the transport's read-only diagnostics (ChannelsForPeer)
// running from several goroutines while other goroutines receive requests for new
// channels and clean channels up. Everything must return.
func TestC20_GsxDiagnosticsRace(t *testing.T) {
	sp := stats.For("C20")
	rapid.Check(t, func(t *rapid.T) {
		r := newGsRig(t)
		readers := rapid.IntRange(1, 4).Draw(t, "readers")
		writers := rapid.IntRange(1, 3).Draw(t, "writers")
		reads := rapid.IntRange(50, 400).Draw(t, "readsEach")
		writes := rapid.IntRange(20, 150).Draw(t, "writesEach")
		r.ev.OnCall = func(c dbl.EvCall) {
			if c.Kind == "opened" {
				time.Sleep(50 * time.Microsecond) // the manager records the event: the hook is inside the handler for a moment
			}
		}
		var wg sync.WaitGroup
		for g := 0; g < readers; g++ {
			wg.Add(1)
			go func() {
				defer wg.Done()
				for i := 0; i < reads; i++ {
					_ = r.tr.ChannelsForPeer(gen.Peer(1 + i%3))
				}
			}()
		}
		for g := 0; g < writers; g++ {
			g := g
			wg.Add(1)
			go func() {
				defer wg.Done()
				for i := 0; i < writes; i++ {
					other := gen.Peer(1 + i%3)
					tid := datatransfer.TransferID(1000*g + i)
					chid := datatransfer.ChannelID{Initiator: other, Responder: r.self, ID: tid}
					req := newRequestMsg(tid, false, true, datatransfer.TypedVoucher{Type: "T/a", Voucher: basicnode.NewString("v")}, simpleCid(1), strNode("sel"))
					rd := &dbl.ReqData{RID: graphsync.NewRequestID(), RootCid: simpleCid(1), Sel: strNode("sel"), Typ: graphsync.RequestTypeNew,
						Exts: dbl.ExtMap([]graphsync.ExtensionData{{Name: extension.ExtensionDataTransfer1_1, Data: req.ToIPLD()}})}
					r.gs.IncomingRequestHook(other, rd, &dbl.InReqActions{})
					if i%2 == 0 {
						r.tr.CleanupChannel(chid)
					}
				}
			}()
		}
		// ... and goroutines that open a channel (the outgoing-request hook runs inside the open
		// call and looks the channel up) while another goroutine cleans the same channel up
		openers := rapid.IntRange(1, 2).Draw(t, "openers")
		opens := rapid.IntRange(10, 40).Draw(t, "opensEach")
		var knownF16 int64
		for g := 0; g < openers; g++ {
			g := g
			wg.Add(1)
			go func() {
				defer wg.Done()
				for i := 0; i < opens; i++ {
					other := gen.Peer(4 + i%2)
					tid := datatransfer.TransferID(100000*(g+1) + i)
					chid := datatransfer.ChannelID{Initiator: r.self, Responder: other, ID: tid}
					req := newRequestMsg(tid, false, true, datatransfer.TypedVoucher{Type: "T/a", Voucher: basicnode.NewString("v")}, simpleCid(1), strNode("sel"))
					var inner sync.WaitGroup
					inner.Add(2)
					go func() {
						defer inner.Done()
						// (the caller's context is bounded: known finding F16 - an open whose channel is
						// cleaned up while its outgoing-request hook runs waits for its context)
						octx, cancel := context.WithTimeout(context.Background(), 100*time.Millisecond)
						defer cancel()
						if err := r.tr.OpenChannel(octx, other, chid, linkOf(simpleCid(1)), strNode("sel"), nil, req); errors.Is(err, context.DeadlineExceeded) {
							atomic.AddInt64(&knownF16, 1)
						}
					}()
					go func() {
						defer inner.Done()
						time.Sleep(time.Duration(i%5) * 20 * time.Microsecond)
						r.tr.CleanupChannel(chid)
					}()
					inner.Wait()
					r.tr.CleanupChannel(chid)
				}
			}()
		}
		if ok, dump := joinOrDump(&wg, watchdog); !ok {
			mfail(t, nil, "C20/transport-deadlock", "ChannelsForPeer from %d goroutines, %d goroutines receiving requests and cleaning up, %d goroutines opening channels that are cleaned up concurrently: not finished within %s:\n%s", readers, writers, openers, watchdog, dump)
		}
		for _, call := range r.gs.Since(0) {
			if call.Kind == "request" {
				r.gs.Complete(call.ID, nil)
			}
		}
		sp.Eval()
		sp.Nontrivial(stats.FP("diag-race", readers, writers, reads/50, writes/20))
		sp.Class("gsx_diagnostics_vs_channel_map_writers")
		if atomic.LoadInt64(&knownF16) > 0 {
			sp.Class("known_F16_open_ended_by_its_context_after_a_concurrent_cleanup")
		}
	})
}
