package hx

import (
	"os"
	"testing"

	"verif/harness/stats"
)

func TestMain(m *testing.M) {
	code := m.Run()
	stats.Flush()
	os.Exit(code)
}
