package hx

import (
	"fmt"
	"os"
	"sort"
	"strings"
	"testing"

	"pgregory.net/rapid"

	datatransfer "github.com/filecoin-project/go-data-transfer/v2"

	"verif/harness/dbl"
	"verif/harness/gen"
	"verif/harness/stats"
)

// ---------------------------------------------------------------------------
// C09 on the channels level

func TestC09_Fsmx(t *testing.T) {
	sp := stats.For("C09")
	sp.SetRule("fsmx: channel driven to a generated status, ended by Cancel / Error / Complete / FinishTransfer+ResponderCompletes / BeginFinalizing+ResumeResponder; in half of the cases 1..3 bookkeeping notices are injected right behind the ending event without synchronising (they race with the cleanup goroutine); optional crash-reopen in the cleanup status followed by CompleteCleanupOnRestart. Oracle: cleanup calls == endings when nothing raced, endings..endings+k with k racing events; each paired with Unprotect(counterparty, channel id); settles in the matching terminal status; cleanup precedes the terminal notification. mgrx/gsx: endings through the API with failing transports and sends; close latency watchdog. Non-trivial: ending from a status other than Ongoing or with racing events; distinct by (role, status before ending, ending kind, raced kinds)")
	rapid.Check(t, func(t *rapid.T) {
		spec := drawSpec(t, 0, false)
		oc := newOCleanup()
		h := newHist(t, []chanSpec{spec}, oc, oMono{})
		defer h.close()
		reach(t, h, 0)
		var nextIdx int64
		for i := rapid.IntRange(0, 3).Draw(t, "pre"); i > 0 && !isTerminal(h.chans[0].last.Status); i-- {
			h.do(fill(t, Act{Kind: pick(t, lifeAlphabet(spec, false), "prekind")}, &nextIdx))
		}
		c := h.chans[0]
		statusBefore := c.last.Status
		var ending string
		var raced []string
		if !isTerminal(c.last.Status) {
			if rapid.Bool().Draw(t, "race") {
				// last event of the ending + racing notices, without synchronising in between
				var pre []Act
				var last Act
				switch rapid.IntRange(0, 3).Draw(t, "endKind") {
				case 0:
					last = Act{Kind: "Cancel"}
				case 1:
					last = Act{Kind: "Error", Msg: "boom"}
				default:
					if spec.SelfInitiator {
						pre, last = []Act{{Kind: "FinishTransfer"}}, Act{Kind: "ResponderCompletes"}
					} else if rapid.Bool().Draw(t, "viaFinalizing") {
						pre, last = []Act{{Kind: "BeginFinalizing"}}, Act{Kind: "ResumeResponder"}
					} else {
						last = Act{Kind: "Complete"}
					}
				}
				for _, a := range pre {
					h.do(a)
				}
				ending = last.Kind
				if !isTerminal(c.last.Status) && !isCleanup(c.last.Status) {
					s := &stepCtx{h: h, c: c, act: last, before: c.last, racing: true}
					s.rawBefore = h.rig.ds.Raw(storeKey(c.chid))
					h.log = append(h.log, fmt.Sprintf("%3d racing: %s followed without sync by:", h.nSteps, last))
					s.ret = h.apply(last)
					k := rapid.IntRange(1, 3).Draw(t, "nRacing")
					for i := 0; i < k; i++ {
						kinds := append([]string{"NewVoucher", "DataReceived"}, noticeKinds...)
						if spec.SelfInitiator && (last.Kind == "Cancel" || last.Kind == "Error") {
							// the local transport or the responder may finish just as the channel is being closed
							kinds = append(kinds, "FinishTransfer", "ResponderCompletes", "ResponderBeginsFinalization")
						}
						a := fill(t, Act{Kind: rapid.SampledFrom(kinds).Draw(t, "raceKind")}, &nextIdx)
						raced = append(raced, a.Kind)
						_ = h.inject(a)
					}
					h.finish(s)
				}
			} else {
				ending = drawEnding(t, h, 0)
			}
		}
		if !isTerminal(c.last.Status) {
			h.fail("C09/no-settle", "channel %s not terminal after ending %s: %s", chidStr(c.chid), ending, c.last.Short())
		}
		// crash-reopen in the cleanup status: replay the write log up to the
		// Put that persisted the cleanup status and restart the channel there
		restarted := checkCleanupOnRestart(h, c, oc)
		sp.Eval()
		if statusBefore != datatransfer.Ongoing || len(raced) > 0 {
			fp := stats.FP(spec.SelfInitiator, spec.Pull, statusBefore, ending, strings.Join(raced, ","))
			sp.Nontrivial(fp)
			sp.Sample(fp, map[string]any{"engine": "fsmx", "channel": spec.String(), "history": h.log})
		}
		if len(raced) > 0 {
			sp.Class("racing_events")
		} else {
			sp.Class("quiet_ending")
		}
		sp.ClassN("extra_cleanups_from_racing_events", oc.extraCleanups)
		if restarted > 0 {
			sp.Class("crash_in_cleanup_status_then_restart")
		}
		sp.Class("ending_" + ending)
	})
}

// putsOf returns, for a channel key, the indexes (into the write log) of its Puts.
func putsOf(log []dbl.WriteOp, key string) []int {
	var out []int
	for i, op := range log {
		for _, it := range op.Items {
			if it.Key == key && !it.Delete {
				out = append(out, i)
			}
		}
	}
	return out
}

// checkCleanupOnRestart reopens the store at every write boundary at which the
// channel was persisted in a cleanup status and checks that
// CompleteCleanupOnRestart finishes the cleanup exactly once.
func checkCleanupOnRestart(h *hist, c *chanCtx, oc *oCleanup) int {
	log := h.rig.ds.Log()
	puts := putsOf(log, storeKey(c.chid))
	pubs := h.rig.pub.entries(c.chid)
	n := 0
	for j, li := range puts {
		if j == 0 || j-1 >= len(pubs) {
			continue
		}
		want := pubs[j-1].Vec
		if !isCleanup(want.Status) {
			continue
		}
		ds2 := h.rig.ds.Prefix(li + 1)
		r2 := newFsmRig(h.t, h.rig.self, ds2)
		st, err := r2.flush(c.chid)
		if err != nil {
			h.fail("C06/reopen-lost-channel", "channel missing at write boundary %d: %v", li+1, err)
		}
		if st.Status() != want.Status {
			r2.stop(h.t)
			h.fail("C06/boundary-state", "at write boundary %d the store holds status %s, publication %d said %s", li+1, datatransfer.Statuses[st.Status()], j-1, datatransfer.Statuses[want.Status])
		}
		if err := r2.chs.CompleteCleanupOnRestart(c.chid); err != nil {
			h.fail("C09/restart-cleanup-error", "CompleteCleanupOnRestart: %v", err)
		}
		st2, ok := r2.settle(c.chid)
		r2.fenceWait(h.t)
		if !ok || st2.Status() != terminalOf(want.Status) {
			h.fail("C09/restart-no-settle", "channel persisted in %s did not settle in %s after CompleteCleanupOnRestart (now %s)", datatransfer.Statuses[want.Status], datatransfer.Statuses[terminalOf(want.Status)], datatransfer.Statuses[st2.Status()])
		}
		// the two events applied on the way (the restart kick, then the completed cleanup) are
		// announced like any other applied event: once each, in order, with the resulting state
		var codes []string
		for _, e := range r2.pub.entries(c.chid) {
			codes = append(codes, datatransfer.Events[e.Code]+"@"+datatransfer.Statuses[e.Vec.Status])
		}
		wantCodes := []string{"CompleteCleanupOnRestart@" + datatransfer.Statuses[want.Status], "CleanupComplete@" + datatransfer.Statuses[terminalOf(want.Status)]}
		if strings.Join(codes, ",") != strings.Join(wantCodes, ",") {
			key := "C09/restart-events"
			if os.Getenv("VERIF_PROP") == "C17" {
				key = "C17/applied-event-not-announced"
			}
			h.fail(key, "restart of a channel persisted in %s announced %v to the subscriber, the applied events are %v", datatransfer.Statuses[want.Status], codes, wantCodes)
		}
		if os.Getenv("VERIF_PROP") == "C17" {
			stats.For("C17").Eval()
			stats.For("C17").Nontrivial(stats.FP("cleanup-restart-events", want.Status, c.spec.SelfInitiator, c.spec.Pull))
			stats.For("C17").Class("events_of_a_cleanup_finished_on_restart")
		}
		cl := r2.env.Cleanups(c.chid)
		un := r2.env.Unprotects(c.chid.String())
		if len(cl) != 1 || len(un) != 1 {
			h.fail("C09/restart-cleanup-count", "restart in %s: %d cleanup / %d unprotect call(s), want exactly 1", datatransfer.Statuses[want.Status], len(cl), len(un))
		}
		if un[0].Peer != c.spec.Other {
			h.fail("C09/unprotect-wrong-peer", "restart cleanup unprotected %s", un[0].Peer)
		}
		r2.stop(h.t)
		oc.restartCleanups++
		n++
	}
	return n
}

// ---------------------------------------------------------------------------
// C06: every write boundary of a multi-channel history

func richFill(t *rapid.T, a Act, nextIdx *int64) Act {
	a = fill(t, a, nextIdx)
	switch a.Kind {
	case "NewVoucher", "NewVoucherResult":
		a.V = gen.Voucher(gen.NodeOpts{}).Draw(t, "richV")
	case "Error", "Disconnected", "RequestCancelled", "SendDataError", "ReceiveDataError":
		if rapid.IntRange(0, 4).Draw(t, "longMsg") == 0 {
			a.Msg = rapid.StringN(0, 2000, 4096).Draw(t, "msgLong")
		}
	case "SetDataLimit":
		if rapid.IntRange(0, 3).Draw(t, "bigLimit") == 0 {
			a.Limit = rapid.Uint64().Draw(t, "limit64")
		}
	case "DataQueued", "DataSent", "DataReceived":
		if rapid.IntRange(0, 5).Draw(t, "bigSize") == 0 {
			a.Delta = rapid.Uint64Range(0, 1<<62).Draw(t, "size64")
		}
	}
	return a
}

func TestC06_Fsmx(t *testing.T) {
	sp := stats.For("C06")
	sp.SetRule("fsmx over a recording datastore: 1..3 channels, histories of 5..60 events over all public event methods with arbitrary IPLD vouchers / results / selectors (nested maps with non-canonical key order, lists, bytes, unicode strings, int64 range, finite floats incl. 0.0 and denormals, links, nulls), messages up to 4096 bytes (codec cap 8192). For every write boundary k (thorough: all; quick: all when <=40, else 40 incl. first and last) the first k writes are materialised into a fresh store and opened: every channel's accessor vector must equal the snapshot that was current after that channel's last Put within the prefix; the listed channels are exactly those created within the prefix; vouchers equal the generator inputs as DAG-CBOR; a boundary in a cleanup status finishes cleanup on restart. Non-trivial: 0<k<n with a voucher append or counter change before k; distinct by (event-code sequence hash, k)")
	thorough := tier() == "thorough"
	rapid.Check(t, func(t *rapid.T) {
		nch := rapid.IntRange(1, 3).Draw(t, "channels")
		specs := make([]chanSpec, nch)
		for i := range specs {
			specs[i] = drawSpec(t, i, true)
		}
		h := newHist(t, specs, oMono{})
		defer h.close()
		created := make([]Vec, nch)
		for i, c := range h.chans {
			created[i] = c.last
		}
		n := rapid.IntRange(5, 60).Draw(t, "n")
		nextIdx := make([]int64, nch)
		inputsV := make([][]string, nch)
		inputsR := make([][]string, nch)
		for i := range inputsV {
			inputsV[i] = []string{gen0(specs[i])}
		}
		var codes []string
		for i := 0; i < n; i++ {
			ch := rapid.IntRange(0, nch-1).Draw(t, "ch")
			if isTerminal(h.chans[ch].last.Status) {
				continue
			}
			ws := []weighted{{"NewVoucher", 4}, {"NewVoucherResult", 4}}
			for _, k := range allKinds {
				w := 2
				if k == "Cancel" || k == "Error" || k == "Complete" || k == "Open" {
					w = 1
				}
				ws = append(ws, weighted{k, w})
			}
			a := richFill(t, Act{Kind: pick(t, ws, "kind"), Ch: ch}, &nextIdx[ch])
			s := h.do(a)
			codes = append(codes, a.Kind)
			for _, e := range s.entries {
				if e.Code == datatransfer.NewVoucher {
					inputsV[ch] = append(inputsV[ch], fmtVoucher(a.V))
				}
				if e.Code == datatransfer.NewVoucherResult {
					inputsR[ch] = append(inputsR[ch], fmtVoucher(a.V))
				}
			}
			// "returned => durable": the query result is what the last publication showed
			pubs := h.rig.pub.entries(h.chans[ch].chid)
			if len(pubs) > 0 && pubs[len(pubs)-1].Vec.Full() != s.after.Full() {
				h.fail("C06/query-not-last-state", "GetByID returned a state that differs from the last applied one:\n query %s\n last   %s", s.after.Full(), pubs[len(pubs)-1].Vec.Full())
			}
		}
		// (b) the final logs are exactly the generator's inputs, as DAG-CBOR data
		for i, c := range h.chans {
			if strings.Join(c.last.Vouchers, "|") != strings.Join(inputsV[i], "|") || strings.Join(c.last.Results, "|") != strings.Join(inputsR[i], "|") {
				h.fail("C06/voucher-log-content", "channel c%d logs differ from the inputs:\n vouchers %v\n inputs   %v\n results  %v\n inputs   %v", i, c.last.Vouchers, inputsV[i], c.last.Results, inputsR[i])
			}
			if c.last.Selector != gen.EncHex(specs[i].Selector) || c.last.BaseCID != specs[i].Base.String() {
				h.fail("C06/identity-content", "channel c%d selector/base differ from the inputs", i)
			}
		}
		log := h.rig.ds.Log()
		total := len(log)
		var ks []int
		if thorough || total <= 40 {
			for k := 0; k <= total; k++ {
				ks = append(ks, k)
			}
		} else {
			set := map[int]bool{0: true, total: true, total - 1: true}
			for len(set) < 40 {
				set[rapid.IntRange(1, total-1).Draw(t, "boundary")] = true
			}
			for k := range set {
				ks = append(ks, k)
			}
			sort.Ints(ks)
		}
		puts := make([][]int, nch)
		pubs := make([][]PubEntry, nch)
		for i, c := range h.chans {
			puts[i] = putsOf(log, storeKey(c.chid))
			pubs[i] = h.rig.pub.entries(c.chid)
			if len(puts[i]) != len(pubs[i])+1 {
				h.fail("C17/publications-vs-writes", "channel c%d: %d publications but %d Puts (one creation Put plus one Put per applied event expected)", i, len(pubs[i]), len(puts[i]))
			}
		}
		codeHash := stats.FP(codes)
		for _, k := range ks {
			ds2 := h.rig.ds.Prefix(k)
			if k == 0 {
				continue
			}
			r2 := &fsmRig{self: h.rig.self, ds: ds2, env: dbl.NewEnv(h.rig.self), pub: newPubLog(), fence: fenceChid(h.rig.self)}
			r2.open(h.t, false)
			listed, err := r2.chs.InProgress()
			if err != nil {
				h.fail("C06/list-failed", "InProgress at write boundary %d/%d failed: %v", k, total, err)
			}
			wantListed := 0
			for i, c := range h.chans {
				j := 0
				for _, li := range puts[i] {
					if li < k {
						j++
					}
				}
				st, present := listed[c.chid]
				if j == 0 {
					if present {
						h.fail("C06/listed-uncreated", "boundary %d: channel c%d listed before its creation Put", k, i)
					}
					continue
				}
				wantListed++
				if !present {
					h.fail("C06/created-not-listed", "boundary %d: channel c%d was created (%d Puts) but is not listed", k, i, j)
				}
				want := created[i]
				if j >= 2 {
					want = pubs[i][j-2].Vec
				}
				got, verr := vecOf(st)
				if verr != nil {
					h.fail("C19/accessor-panic", "%v (state decoded at boundary %d)", verr, k)
				}
				if got.Full() != want.Full() {
					h.fail("C06/boundary-state", "boundary %d/%d: channel c%d decodes to a state that was not current after its Put #%d:\n decoded %s\n current %s", k, total, i, j, got.Full(), want.Full())
				}
				// the same through the query path
				st2, err := r2.flush(c.chid)
				if err != nil {
					h.fail("C06/reopen-lost-channel", "boundary %d: GetByID(c%d): %v", k, i, err)
				}
				got2, _ := vecOf(st2)
				if got2.Full() != want.Full() {
					h.fail("C06/boundary-state-query", "boundary %d: GetByID(c%d) differs from the listed state", k, i)
				}
				if k < total && j >= 2 {
					progress := want.Queued+want.Sent+want.Received > 0 || len(want.Vouchers) > 1 || len(want.Results) > 0
					if progress {
						sp.Nontrivial(stats.FP(codeHash, k))
					}
				}
			}
			if _, hasFence := listed[r2.fence]; hasFence {
				wantListed++
			}
			if len(listed) != wantListed {
				h.fail("C06/listed-extra", "boundary %d: %d channels listed, %d created within the prefix", k, len(listed), wantListed)
			}
			r2.stop(h.t)
			sp.Class("boundaries_checked")
			sp.Eval() // one evaluated case per crash point
		}
		// cleanup statuses on restart (fault at the boundary that persisted them)
		oc := newOCleanup()
		for _, c := range h.chans {
			if checkCleanupOnRestart(h, c, oc) > 0 {
				sp.Class("boundary_in_cleanup_status_restarted")
			}
		}
		sp.Class("histories")
		sp.ClassN("channels", nch)
		if sp.WantSample() {
			hl := h.log
			if len(hl) > 25 {
				hl = hl[:25]
			}
			var specsS []string
			for _, s := range specs {
				specsS = append(specsS, s.String())
			}
			sp.Sample(codeHash, map[string]any{"engine": "fsmx", "channels": specsS, "writes": total, "boundaries_checked": len(ks), "history_prefix": hl})
		}
	})
}
