package hx

import (
	"errors"
	"fmt"
	"strings"
	"testing"

	"github.com/ipld/go-ipld-prime/node/basicnode"
	"github.com/libp2p/go-libp2p/core/peer"
	"pgregory.net/rapid"

	datatransfer "github.com/filecoin-project/go-data-transfer/v2"
	"github.com/filecoin-project/go-data-transfer/v2/message"

	"verif/harness/dbl"
	"verif/harness/gen"
	"verif/harness/stats"
)

// TestC11_Mgrx: local pause/resume, counterparty updates over both paths, stay-paused rule.
func TestC11_Mgrx(t *testing.T) {
	sp := stats.For("C11")
	rapid.Check(t, func(t *rapid.T) {
		r := newMgrRig(t, gen.Peer(0), dbl.NewRecDatastore(), "T/a")
		defer r.stop()
		var log []string
		role := rapid.SampledFrom(roles).Draw(t, "role")
		c := openRole(t, r, &log, role, 980, rapid.Bool().Draw(t, "viaTransport"))
		selfI := c.selfInit()
		I, R := false, false // reference flags
		n := rapid.IntRange(1, 14).Draw(t, "n")
		var pattern []string
		localActed, remoteActed := false, false
		for i := 0; i < n; i++ {
			acts := []string{"local-pause", "local-resume", "remote-pause", "remote-resume"}
			if !selfI {
				// any other message the responder sends restates its pause state: the initiator reads it as such
				acts = append(acts, "local-voucher-result")
			}
			act := rapid.SampledFrom(acts).Draw(t, "act")
			viaTransport := rapid.Bool().Draw(t, "viaTransport")
			trFail := rapid.IntRange(0, 5).Draw(t, "transportFails") == 0
			if trFail {
				r.tr.SetErr("pause", errors.New("transport pause failed"))
				r.tr.SetErr("resume", errors.New("transport resume failed"))
			}
			sent0, tr0 := r.net.SentLen(), r.tr.Len()
			var err, retErr error
			switch act {
			case "local-pause":
				err = r.mgr.PauseDataTransferChannel(bg(), c.chid)
			case "local-resume":
				err = r.mgr.ResumeDataTransferChannel(bg(), c.chid)
			case "local-voucher-result":
				trFail = false
				r.tr.SetErr("pause", nil)
				r.tr.SetErr("resume", nil)
				err = r.mgr.SendVoucherResult(bg(), c.chid, datatransfer.TypedVoucher{Type: "T/r", Voucher: basicnode.NewString(fmt.Sprint("vr", i))})
			case "remote-pause", "remote-resume":
				var m datatransfer.Message
				if selfI {
					m = message.UpdateResponse(c.chid.ID, act == "remote-pause")
					// every response of the responder restates its pause state, not only plain updates
					if rapid.IntRange(0, 2).Draw(t, "carriedByVoucherResult") == 0 {
						vr := datatransfer.TypedVoucher{Type: "T/r", Voucher: basicnode.NewString(fmt.Sprint("remote-vr", i))}
						m, _ = message.VoucherResultResponse(c.chid.ID, true, act == "remote-pause", &vr)
						sp.Class("pause_state_carried_by_a_voucher_result")
					}
				} else {
					m = message.UpdateRequest(c.chid.ID, act == "remote-pause")
				}
				if viaTransport {
					if selfI {
						retErr = r.ev().OnResponseReceived(c.chid, m.(datatransfer.Response))
					} else {
						_, retErr = r.ev().OnRequestReceived(c.chid, m.(datatransfer.Request))
					}
				} else {
					deliver(r, c.other, m, false)
				}
			}
			r.tr.SetErr("pause", nil)
			r.tr.SetErr("resume", nil)
			st := r.sync(c.chid)
			v, _ := vecOf(st)
			sent := r.net.SentSince(sent0)
			calls := r.tr.Since(tr0)
			pubs := newPubs(r, c)
			log = append(log, fmt.Sprintf("%s (transport path=%v, transport fails=%v) -> err=%v ret=%v events=%v sent=%d pauses=%d resumes=%d state=%s", act, viaTransport, trFail, err, retErr, codesOf(pubs), len(sent), countKind(calls, "pause", c.chid), countKind(calls, "resume", c.chid), v.Short()))
			pattern = append(pattern, act)
			switch act {
			case "local-pause":
				localActed = true
				if selfI {
					I = true
				} else {
					R = true
				}
				if countKind(calls, "pause", c.chid) != 1 {
					mfail(t, log, "C11/local-pause-transport", "local pause made %d transport pause calls", countKind(calls, "pause", c.chid))
				}
				if len(sent) != 1 || !sent[0].Msg.IsUpdate() || !sent[0].Msg.IsPaused() || sent[0].Msg.IsRequest() != selfI || sent[0].To != c.other || sent[0].Msg.TransferID() != c.chid.ID {
					mfail(t, log, "C11/local-pause-message", "local pause must announce one Update(paused) %s to the counterparty", map[bool]string{true: "request", false: "response"}[selfI])
				}
			case "local-resume":
				localActed = true
				if selfI {
					I = false
				} else {
					R = false
				}
				var resumes []dbl.TCall
				for _, call := range calls {
					if call.Kind == "resume" && call.Chid == c.chid {
						resumes = append(resumes, call)
					}
				}
				if len(resumes) != 1 || resumes[0].Msg == nil || !resumes[0].Msg.IsUpdate() || resumes[0].Msg.IsPaused() || resumes[0].Msg.IsRequest() != selfI || resumes[0].Msg.TransferID() != c.chid.ID {
					mfail(t, log, "C11/local-resume-transport", "local resume must call the transport once with an Update(un-paused) %s", map[bool]string{true: "request", false: "response"}[selfI])
				}
			case "local-voucher-result":
				if err != nil || len(sent) != 1 || sent[0].Msg.IsRequest() || sent[0].To != c.other || sent[0].Msg.TransferID() != c.chid.ID {
					mfail(t, log, "C11/voucher-result-message", "SendVoucherResult: err=%v, %d messages", err, len(sent))
				}
				if sent[0].Msg.IsPaused() != R {
					mfail(t, log, "C11/voucher-result-pause-announcement", "the responder is paused=%v but its voucher-result message says paused=%v: the initiator would record a %s that never happened", R, sent[0].Msg.IsPaused(), map[bool]string{true: "pause", false: "resume"}[sent[0].Msg.IsPaused()])
				}
				if len(calls) != 0 {
					mfail(t, log, "C11/voucher-result-touched-transport", "SendVoucherResult made %d transport calls", len(calls))
				}
				sp.Class("voucher_result_restates_pause_state")
			case "remote-pause":
				remoteActed = true
				if selfI {
					R = true
				} else {
					I = true
				}
				if len(calls) != 0 && !(len(calls) == 0) {
					mfail(t, log, "C11/remote-pause-transport", "counterparty pause touched the transport")
				}
			case "remote-resume":
				remoteActed = true
				if selfI {
					R = false
				} else {
					I = false
				}
				selfPaused := (selfI && I) || (!selfI && R)
				if selfPaused {
					// the transport is told to stay paused
					if viaTransport {
						if retErr != datatransfer.ErrPause {
							mfail(t, log, "C11/stay-paused", "counterparty resumed while the local side is paused: transport path returned %v, want the pause signal", retErr)
						}
					} else if countKind(calls, "pause", c.chid) != 1 {
						mfail(t, log, "C11/stay-paused", "counterparty resumed while the local side is paused: %d transport pause calls on the network path", countKind(calls, "pause", c.chid))
					}
					sp.Class("stay_paused_rule_exercised")
				} else {
					if retErr != nil || countKind(calls, "pause", c.chid) != 0 {
						mfail(t, log, "C11/spurious-pause", "counterparty resume with the local side running: ret=%v pauses=%d", retErr, countKind(calls, "pause", c.chid))
					}
				}
			}
			if v.InitPaused != I || v.RespPaused != R || v.BothPaused != (I && R) || v.SelfPaused != ((selfI && I) || (!selfI && R)) {
				mfail(t, log, "C11/flags", "flags initiator=%v responder=%v both=%v self=%v; reference initiator=%v responder=%v", v.InitPaused, v.RespPaused, v.BothPaused, v.SelfPaused, I, R)
			}
			if v.Status != datatransfer.Ongoing {
				mfail(t, log, "C03/bookkeeping-moved-status", "pause/resume moved the status to %s", datatransfer.Statuses[v.Status])
			}
		}
		sp.Eval()
		if localActed && remoteActed {
			fp := stats.FP("mgrx", role, strings.Join(pattern, ","))
			sp.Nontrivial(fp)
			sp.Sample(fp, map[string]any{"engine": "mgrx", "case": log})
			sp.Class("mgrx_both_parties_acted")
		}
	})
}

// TestC19_Mgrx: voucher / voucher-result exchanges with failing sends.
func TestC19_Mgrx(t *testing.T) {
	sp := stats.For("C19")
	rapid.Check(t, func(t *rapid.T) {
		r := newMgrRig(t, gen.Peer(0), dbl.NewRecDatastore(), "T/a")
		defer r.stop()
		var log []string
		role := rapid.SampledFrom(roles).Draw(t, "role")
		c := openRole(t, r, &log, role, 990, rapid.Bool().Draw(t, "viaTransport"))
		before, _ := r.vec(c.chid)
		wantV := append([]string{}, before.Vouchers...)
		wantR := append([]string{}, before.Results...)
		n := rapid.IntRange(1, 10).Draw(t, "n")
		failed := 0
		for i := 0; i < n; i++ {
			v := gen.SmallVoucher().Draw(t, "v")
			fail := rapid.IntRange(0, 2).Draw(t, "sendFails") == 0
			if fail {
				r.net.SetSendErr(func(peer.ID, datatransfer.Message) error { return errors.New("send failed") })
			}
			var err error
			var act string
			if c.selfInit() {
				switch rapid.IntRange(0, 1).Draw(t, "act") {
				case 0:
					act = "SendVoucher"
					err = r.mgr.SendVoucher(bg(), c.chid, v)
					if !fail {
						wantV = append(wantV, gen.VoucherStr(v))
					}
				default:
					act = "receive voucher result"
					fail = false
					m, _ := message.VoucherResultResponse(c.chid.ID, true, false, &v)
					deliver(r, c.other, m, rapid.Bool().Draw(t, "path"))
					wantR = append(wantR, gen.VoucherStr(v))
				}
			} else {
				switch rapid.IntRange(0, 1).Draw(t, "act") {
				case 0:
					act = "SendVoucherResult"
					err = r.mgr.SendVoucherResult(bg(), c.chid, v)
					if !fail {
						wantR = append(wantR, gen.VoucherStr(v))
					}
				default:
					act = "receive voucher"
					fail = false
					m, _ := message.VoucherRequest(c.chid.ID, &v)
					deliver(r, c.other, m, rapid.Bool().Draw(t, "path"))
					wantV = append(wantV, gen.VoucherStr(v))
				}
			}
			r.net.SetSendErr(nil)
			if fail {
				failed++
			}
			st := r.sync(c.chid)
			vec, verr := vecOf(st)
			if verr != nil {
				mfail(t, log, "C19/accessor-panic", "%v", verr)
			}
			log = append(log, fmt.Sprintf("%s %s sendFails=%v -> err=%v vouchers=%d results=%d", act, gen.VoucherStr(v), fail, err, len(vec.Vouchers), len(vec.Results)))
			if fail && err == nil {
				mfail(t, log, "C19/failed-send-not-reported", "%s with a failing send returned nil", act)
			}
			if strings.Join(vec.Vouchers, "|") != strings.Join(wantV, "|") || strings.Join(vec.Results, "|") != strings.Join(wantR, "|") {
				mfail(t, log, "C19/log-content", "logs after %s:\n vouchers %v\n want     %v\n results  %v\n want     %v", act, vec.Vouchers, wantV, vec.Results, wantR)
			}
			// record-after-send: the publication that shows the new entry comes after the send
			if !fail && (act == "SendVoucher" || act == "SendVoucherResult") {
				sent := r.net.SentMsgs()
				last := sent[len(sent)-1]
				pubs := r.pub.entries(c.chid)
				lp := pubs[len(pubs)-1]
				if lp.Seq < last.Seq {
					mfail(t, log, "C19/record-before-send", "%s was recorded before the message was sent", act)
				}
				wantKindReq := act == "SendVoucher"
				if last.To != c.other || last.Msg.IsRequest() != wantKindReq {
					mfail(t, log, "C19/voucher-message", "%s sent the wrong kind of message", act)
				}
			}
			if vec.LastVoucher != wantV[len(wantV)-1] || (len(wantR) > 0 && vec.LastResult != wantR[len(wantR)-1]) || (len(wantR) == 0 && vec.LastResult != emptyVoucherStr) {
				mfail(t, log, "C19/last-views", "LastVoucher=%s LastVoucherResult=%s", vec.LastVoucher, vec.LastResult)
			}
			if len(vec.Results) == 0 || len(vec.Vouchers) > 1 {
				sp.Nontrivial(stats.FP("mgrx", role, len(vec.Vouchers), len(vec.Results), failed > 0))
			}
		}
		sp.EvalN(n)
		if failed > 0 {
			sp.Class("mgrx_exchange_with_failed_send")
		}
		if sp.WantSample() {
			sp.Sample(stats.FP("mgrx", log), map[string]any{"engine": "mgrx", "case": log})
		}
		_ = basicnode.NewString
	})
}
