package hx

import (
	"fmt"
	"os"
	"strings"
	"testing"

	"pgregory.net/rapid"

	datatransfer "github.com/filecoin-project/go-data-transfer/v2"
	"github.com/filecoin-project/go-data-transfer/v2/message"

	"verif/harness/dbl"
	"verif/harness/gen"
	"verif/harness/stats"
)

// identityOf is the part of the vector a restart must never alter.
func identityOf(v Vec) string {
	return fmt.Sprintf("chid=%s v=%v base=%s sel=%s snd=%s rcp=%s self=%s oth=%s q=%d/%d s=%d/%d r=%d/%d",
		chidStr(v.ChannelID), v.Vouchers, v.BaseCID, v.Selector, v.Sender, v.Recipient, v.Self, v.Other,
		v.Queued, v.QueuedIdx, v.Sent, v.SentIdx, v.Received, v.ReceivedIdx)
}

func keysOf(m map[string][]byte) string {
	return strings.Join(gen.SortedKeys(m), ",")
}

// TestC10_MgrxLocal: RestartDataTransferChannel in the four roles.
func TestC10_MgrxLocal(t *testing.T) {
	sp := stats.For("C10")
	sp.SetRule("mgrx: a channel in one of the four roles (created/received x push/pull) at a generated progress point and status (Requested .. TransferFinished, paused, terminated), optionally after a process restart, then a local RestartDataTransferChannel (responder: ValidateRestart scripted accept / reject / error) or an incoming restart request. Oracle: channel key set, id, vouchers, base CID, selector, peers and recorded progress unchanged; initiator re-issues the original request as a restart (push: one restart request message; pull: one transport open with the stored state and the received block count); responder re-validates first and then sends exactly one restart-existing-channel request, nothing when refused; cleanup status only finishes cleanup. gsx: do-not-send-first-blocks count, cancel-before-reopen, queued extensions delivered once. Non-trivial: progress > 0 at restart; distinct by (role, status, after process restart, validator outcome)")
	rapid.Check(t, func(t *rapid.T) {
		r := newMgrRig(t, gen.Peer(0), dbl.NewRecDatastore(), "T/a")
		defer r.stop()
		var log []string
		c := openAny(t, r, &log, "c", 900, gen.Peer(1))
		if rapid.IntRange(0, 3).Draw(t, "pause") == 0 {
			_ = r.mgr.PauseDataTransferChannel(bg(), c.chid)
			log = append(log, "local pause")
		}
		afterProcessRestart := rapid.Bool().Draw(t, "processRestart")
		if afterProcessRestart {
			r.restartProcess([]datatransfer.TypeIdentifier{"T/a"})
			log = append(log, "process restart")
		}
		r.syncAll()
		before, _ := r.vec(c.chid)
		keysBefore := keysOf(storeSnapshot(r))
		out := drawOutcome(t, "restartOutcome")
		if !c.selfInit() && !isTerminal(before.Status) {
			r.vals["T/a"].Push(out)
		}
		sent0, tr0, val0 := r.net.SentLen(), r.tr.Len(), totalValidatorCalls(r)
		desc := fmt.Sprintf("RestartDataTransferChannel on %s in %s (ValidateRestart outcome %s)", c, before.Short(), outcomeStr(out))
		log = append(log, desc)
		var err error
		guard(t, &log, "C04/restart/unregistered-type-panic", desc, func() { err = r.mgr.RestartDataTransferChannel(bg(), c.chid) })
		r.syncAll()
		after, _ := r.vec(c.chid)
		sent := r.net.SentSince(sent0)
		calls := r.tr.Since(tr0)
		vcalls := totalValidatorCalls(r) - val0
		log = append(log, fmt.Sprintf("  -> err=%v sent=%d transportCalls=%d validatorCalls=%d", err, len(sent), len(calls), vcalls))
		if identityOf(after) != identityOf(before) {
			mfail(t, log, "C10/identity-changed", "restart altered identity or progress:\n before %s\n after  %s", identityOf(before), identityOf(after))
		}
		if k := keysOf(storeSnapshot(r)); k != keysBefore {
			mfail(t, log, "C10/channel-created", "restart changed the set of channels: %s -> %s", keysBefore, k)
		}
		opens := 0
		var open dbl.TCall
		for _, call := range calls {
			if call.Kind == "open" {
				opens++
				open = call
			}
		}
		switch {
		case isTerminal(before.Status):
			if err != nil || len(sent) != 0 || len(calls) != 0 || after.Full() != before.Full() {
				mfail(t, log, "C02/restart-terminated", "restart of a terminated channel: err=%v sent=%d transportCalls=%d", err, len(sent), len(calls))
			}
		case c.role == "createPush":
			if err != nil || len(sent) != 1 || opens != 0 {
				mfail(t, log, "C10/push-restart-message", "restart of a created push channel: err=%v, %d messages, %d opens", err, len(sent), opens)
			}
			m := sent[0]
			req, ok := m.Msg.(datatransfer.Request)
			if !ok || !m.Msg.IsRequest() || !req.IsRestart() || req.IsNew() || req.TransferID() != c.chid.ID || req.IsPull() || m.To != c.other {
				mfail(t, log, "C10/push-restart-message", "message is not a push restart request for the same transfer to the counterparty")
			}
			checkRestartRequest(t, log, req, c)
		case c.role == "createPull":
			if err != nil || opens != 1 || len(sent) != 0 {
				mfail(t, log, "C10/pull-restart-open", "restart of a created pull channel: err=%v, %d opens, %d messages", err, opens, len(sent))
			}
			req, ok := open.Msg.(datatransfer.Request)
			if !ok || open.Chid != c.chid || open.Peer != c.other || !req.IsRestart() || !req.IsPull() || req.TransferID() != c.chid.ID {
				mfail(t, log, "C10/pull-restart-open", "transport open is not a pull restart request for the same channel")
			}
			checkRestartRequest(t, log, req, c)
			if open.Root.String() != c.base.String() || !gen.NodesEqual(open.Sel, c.sel) {
				mfail(t, log, "C10/pull-restart-open", "transport open with root %s", open.Root)
			}
			if open.Channel == nil || open.Channel.ChannelID() != c.chid || open.Channel.ReceivedCidsTotal() != before.ReceivedIdx {
				mfail(t, log, "C10/pull-restart-state", "transport open did not carry the stored channel state (received blocks %d)", before.ReceivedIdx)
			}
		default: // responder
			if vcalls != 1 {
				mfail(t, log, "C04/restart-not-revalidated", "%d validator calls on a responder's local restart", vcalls)
			}
			vc := r.vals["T/a"].Calls()
			if last := vc[len(vc)-1]; last.Kind != "restart" || last.Chid != c.chid {
				mfail(t, log, "C04/validator-arguments", "validator consulted with kind=%s", last.Kind)
			}
			if outcomeAccepts(out) {
				if err != nil || len(sent) != 1 || opens != 0 {
					mfail(t, log, "C10/responder-restart-message", "accepted responder restart: err=%v, %d messages, %d opens", err, len(sent), opens)
				}
				req, ok := sent[0].Msg.(datatransfer.Request)
				if !ok || !req.IsRestartExistingChannelRequest() || sent[0].To != c.other {
					mfail(t, log, "C10/responder-restart-message", "message is not a restart-existing-channel request to the counterparty")
				}
				if named, e := req.RestartChannelId(); e != nil || named != c.chid {
					mfail(t, log, "C10/responder-restart-message", "restart-existing-channel request names %s", chidStr(named))
				}
			} else {
				if err == nil || len(sent) != 0 || opens != 0 {
					mfail(t, log, "C10/refused-responder-restart", "refused responder restart: err=%v, %d messages, %d opens", err, len(sent), opens)
				}
			}
		}
		sp.Eval()
		progress := before.Queued+before.Received > 0
		if progress {
			fp := stats.FP("local", c.role, before.Status, afterProcessRestart, outcomeAccepts(out), before.InitPaused, before.RespPaused)
			sp.Nontrivial(fp)
			sp.Sample(fp, map[string]any{"engine": "mgrx", "case": log})
		}
		sp.Class("role_" + c.role)
		if afterProcessRestart {
			sp.Class("after_process_restart")
		}
	})
}

func checkRestartRequest(t *rapid.T, log []string, req datatransfer.Request, c *mchan) {
	v, err := req.Voucher()
	sel, serr := req.Selector()
	if err != nil || serr != nil || !gen.NodesEqual(v, c.voucher.Voucher) || req.VoucherType() != c.voucher.Type || req.BaseCid() != c.base || !gen.NodesEqual(sel, c.sel) {
		mfail(t, log, "C10/restart-request-content", "restart request does not repeat the original voucher / base CID / selector")
	}
}

// TestC10_MgrxCleanup: a channel persisted in a cleanup status only finishes cleanup on restart.
func TestC10_MgrxCleanup(t *testing.T) {
	sp := stats.For("C10")
	rapid.Check(t, func(t *rapid.T) {
		r := newMgrRig(t, gen.Peer(0), dbl.NewRecDatastore(), "T/a")
		var log []string
		c := openAny(t, r, &log, "c", 901, gen.Peer(1))
		st, _ := r.flush(c.chid)
		if isTerminal(st.Status()) {
			r.stop()
			return
		}
		withError := rapid.Bool().Draw(t, "withError")
		ending := rapid.SampledFrom([]string{"close", "complete"}).Draw(t, "ending")
		if ending == "complete" {
			// a normal completion: Completing is persisted before Completed
			if st.Status() == datatransfer.Requested || st.Status() == datatransfer.Queued || st.Status() == datatransfer.AwaitingAcceptance {
				r.toOngoing(c)
			}
			_ = r.ev().OnChannelCompleted(c.chid, nil)
			if c.selfInit() {
				m, _ := message.CompleteResponse(c.chid.ID, true, false, nil)
				deliver(r, c.other, m, false)
			}
		} else if withError {
			_ = r.mgr.(closer).CloseDataTransferChannelWithError(bg(), c.chid, fmt.Errorf("boom"))
		} else {
			_ = r.closeCh(c.chid)
		}
		r.settle(c.chid)
		r.syncAll()
		pubs := r.pub.entries(c.chid)
		puts := putsOf(r.ds.Log(), storeKey(c.chid))
		ds := r.ds
		r.stop()
		checked := 0
		for j := 1; j < len(puts) && j-1 < len(pubs); j++ {
			if !isCleanup(pubs[j-1].Vec.Status) {
				continue
			}
			ds2 := ds.Prefix(puts[j] + 1)
			r2 := newMgrRig(t, gen.Peer(0), ds2, "T/a")
			before, err := r2.vec(c.chid)
			if err != nil || !isCleanup(before.Status) {
				r2.stop()
				mfail(t, log, "C06/boundary-state", "crash boundary does not hold the cleanup status: %v %s", err, before.Short())
			}
			sent0, tr0 := r2.net.SentLen(), r2.tr.Len()
			rerr := r2.mgr.RestartDataTransferChannel(bg(), c.chid)
			st2, ok := r2.settle(c.chid)
			r2.syncAll()
			calls := r2.tr.Since(tr0)
			if rerr != nil || !ok || st2.Status() != terminalOf(before.Status) {
				key := "C10/cleanup-restart"
				if p := os.Getenv("VERIF_PROP"); p == "C06" || p == "C09" {
					key = p + "/cleanup-not-finished-on-restart"
				}
				mfail(t, log, key, "restart of a channel persisted in %s: err=%v settled=%v", datatransfer.Statuses[before.Status], rerr, ok)
			}
			if r2.net.SentLen() != sent0 || countKind(calls, "open", c.chid) != 0 || countKind(calls, "cleanup", c.chid) != 1 {
				mfail(t, log, "C10/cleanup-restart-effects", "restart in a cleanup status sent %d messages, opened %d, cleaned up %d time(s)", r2.net.SentLen()-sent0, countKind(calls, "open", c.chid), countKind(calls, "cleanup", c.chid))
			}
			r2.stop()
			checked++
		}
		sp.Eval()
		if p := os.Getenv("VERIF_PROP"); p == "C06" || p == "C09" {
			stats.For(p).Eval()
			stats.For(p).Class("manager_restart_of_channel_persisted_in_cleanup_status")
			stats.For(p).Nontrivial(stats.FP("mgr-cleanup-restart", p, withError, ending, c.role))
		}
		if checked > 0 {
			fp := stats.FP("cleanup", c.role, withError, ending)
			sp.Nontrivial(fp)
			sp.Class("restart_in_cleanup_status")
		}
	})
}

// TestC10_MgrxReplay: a restart replays the blocks the receiver already holds;
// recorded progress must not move and a second restart must skip what was recorded.
func TestC10_MgrxReplay(t *testing.T) {
	sp := stats.For("C10")
	rapid.Check(t, func(t *rapid.T) {
		r := newMgrRig(t, gen.Peer(0), dbl.NewRecDatastore(), "T/a")
		defer r.stop()
		var log []string
		role := rapid.SampledFrom([]string{"createPull", "receivePush"}).Draw(t, "role")
		c := openRole(t, r, &log, role, 905, false)
		n := rapid.IntRange(1, 8).Draw(t, "blocks")
		var bytesWant uint64
		for i := 1; i <= n; i++ {
			_, _ = r.report(c, int64(i), uint64(100*i), true)
			bytesWant += uint64(100 * i)
		}
		r.syncAll()
		restart := func(label string) {
			tr0 := r.tr.Len()
			if role == "createPull" {
				if err := r.mgr.RestartDataTransferChannel(bg(), c.chid); err != nil {
					mfail(t, log, "C10/restart-error", "%s: %v", label, err)
				}
			} else {
				req := newRequestMsg(c.chid.ID, true, false, c.voucher, c.base, c.sel)
				r.recv().ReceiveRequest(bg(), c.other, req)
			}
			r.syncAll()
			var open *dbl.TCall
			for _, call := range r.tr.Since(tr0) {
				if call.Kind == "open" && call.Chid == c.chid {
					cc := call
					open = &cc
				}
			}
			if open == nil || open.Channel == nil {
				mfail(t, log, "C10/pull-restart-open", "%s: no transport open with the stored channel state", label)
			}
			log = append(log, fmt.Sprintf("%s: transport told that %d blocks are already held", label, open.Channel.ReceivedCidsTotal()))
			if open.Channel.ReceivedCidsTotal() != int64(n) {
				mfail(t, log, "C10/skip-count", "%s tells the sender to skip %d blocks, %d were recorded as received", label, open.Channel.ReceivedCidsTotal(), n)
			}
		}
		restart("first restart")
		k := rapid.IntRange(1, n).Draw(t, "replayed")
		for i := 1; i <= k; i++ {
			// the receiver's graphsync re-traverses the blocks it already holds: not on the wire, not unique
			_, _ = r.report(c, int64(i), uint64(100*i), false)
			if rapid.IntRange(0, 5).Draw(t, "processRestart") == 0 {
				r.restartProcess([]datatransfer.TypeIdentifier{"T/a"})
				log = append(log, "process restart")
			}
			v, _ := r.vec(c.chid)
			log = append(log, fmt.Sprintf("replayed position %d -> received=%d/%d", i, v.Received, v.ReceivedIdx))
			if v.ReceivedIdx != int64(n) || v.Received != bytesWant {
				mfail(t, log, "C10/progress-changed-by-replay", "replay of position %d after the restart changed recorded progress to %d bytes / %d blocks (was %d / %d)", i, v.Received, v.ReceivedIdx, bytesWant, n)
			}
		}
		// interrupted again during the replay
		restart("second restart")
		// the rest arrives over the wire
		extra := rapid.IntRange(0, 3).Draw(t, "newBlocks")
		for i := n + 1; i <= n+extra; i++ {
			_, _ = r.report(c, int64(i), 50, true)
			bytesWant += 50
		}
		v, _ := r.vec(c.chid)
		if v.Received != bytesWant || v.ReceivedIdx != int64(n+extra) {
			mfail(t, log, "C10/double-progress", "after the healed transfer: received %d bytes / %d blocks, want %d / %d", v.Received, v.ReceivedIdx, bytesWant, n+extra)
		}
		sp.Eval()
		fp := stats.FP("replay", role, n, k, extra)
		sp.Nontrivial(fp)
		sp.Class("restart_with_replayed_positions")
		if sp.WantSample() {
			sp.Sample(fp, map[string]any{"engine": "mgrx", "case": log})
		}
	})
}
