//go:build verif

package hx

import (
	"sync"
	"testing"

	"pgregory.net/rapid"

	dtimpl "github.com/filecoin-project/go-data-transfer/v2/impl"

	"verif/harness/dbl"
	"verif/harness/gen"
	"verif/harness/stats"
)

// TestC18_RaceIDGenerator hammers the manager's transfer ID generator through the
// verif hook: the window between two opens that could receive the same ID is a few
// nanoseconds, far below what whole OpenPush/OpenPull calls can hit.
func TestC18_RaceIDGenerator(t *testing.T) {
	sp := stats.For("C18")
	rapid.Check(t, func(t *rapid.T) {
		G := rapid.IntRange(2, 16).Draw(t, "goroutines")
		N := rapid.IntRange(1000, 60000).Draw(t, "drawsEach")
		r := newMgrRig(t, gen.Peer(0), dbl.NewRecDatastore(), "T/a")
		defer r.stop()
		ids := make([][]uint64, G)
		var wg sync.WaitGroup
		gate := make(chan struct{})
		for g := 0; g < G; g++ {
			g := g
			ids[g] = make([]uint64, 0, N)
			wg.Add(1)
			go func() {
				defer wg.Done()
				<-gate
				for i := 0; i < N; i++ {
					ids[g] = append(ids[g], dtimpl.VerifNextTransferID(r.mgr))
				}
			}()
		}
		close(gate)
		wg.Wait()
		seen := make(map[uint64]int, G*N)
		for g := range ids {
			var last uint64
			for _, id := range ids[g] {
				if id <= last {
					mfail(t, nil, "C18/id-not-increasing", "goroutine %d drew id %d after %d", g, id, last)
				}
				last = id
				if o, dup := seen[id]; dup {
					mfail(t, nil, "C18/duplicate-id", "transfer id %d issued twice (goroutines %d and %d) among %d concurrent draws", id, o, g, G*N)
				}
				seen[id] = g
			}
		}
		sp.EvalN(1)
		fp := stats.FP("id-generator", G, N/1000)
		sp.Nontrivial(fp)
		sp.Class("id_generator_under_contention")
		sp.ClassN("ids_drawn_concurrently", G*N)
		if sp.WantSample() {
			sp.Sample(fp, map[string]any{"engine": "racex", "what": "transfer id generator via verif hook", "goroutines": G, "draws_each": N})
		}
	})
}
