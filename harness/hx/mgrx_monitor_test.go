package hx

import (
	"errors"
	"fmt"
	"sync"
	"testing"
	"time"

	"github.com/ipld/go-ipld-prime/node/basicnode"
	"github.com/libp2p/go-libp2p/core/peer"
	"pgregory.net/rapid"

	datatransfer "github.com/filecoin-project/go-data-transfer/v2"
	"github.com/filecoin-project/go-data-transfer/v2/channelmonitor"
	dtimpl "github.com/filecoin-project/go-data-transfer/v2/impl"
	"github.com/filecoin-project/go-data-transfer/v2/message"

	"verif/harness/dbl"
	"verif/harness/gen"
	"verif/harness/stats"
)

// attemptPlan scripts the outcome of the successive restart attempts of one
// round: each attempt first dials (connect) and then issues the restart request
// (a network send for a push channel, a transport open for a pull channel).
type attemptPlan struct {
	mu       sync.Mutex
	plan     []string // connectFail | sendFail | ok ; beyond the end: ok
	i        int
	connects int
	sendsOK  int
	sendsErr int
}

func (p *attemptPlan) set(plan []string) {
	p.mu.Lock()
	p.plan, p.i, p.connects, p.sendsOK, p.sendsErr = plan, 0, 0, 0, 0
	p.mu.Unlock()
}

func (p *attemptPlan) cur() string {
	if p.i < len(p.plan) {
		return p.plan[p.i]
	}
	return "ok"
}

func (p *attemptPlan) connect() error {
	p.mu.Lock()
	defer p.mu.Unlock()
	p.connects++
	if p.cur() == "connectFail" {
		p.i++
		return errors.New("dial failed")
	}
	return nil
}

func (p *attemptPlan) send() error {
	p.mu.Lock()
	defer p.mu.Unlock()
	o := p.cur()
	p.i++
	if o == "sendFail" {
		p.sendsErr++
		return errors.New("stream reset")
	}
	p.sendsOK++
	return nil
}

func (p *attemptPlan) counts() (connects, ok, failed int) {
	p.mu.Lock()
	defer p.mu.Unlock()
	return p.connects, p.sendsOK, p.sendsErr
}

// TestC14_MgrMonitor: the real manager with its real channel monitor over the
// recording doubles, in real time with millisecond settings. Rounds of
// (optional data progress, scripted attempt outcomes, one transport error);
// after each round the reference counter says how many attempts were made and
// whether the monitor has to give its verdict (channel closed with an error).
func TestC14_MgrMonitor(t *testing.T) {
	sp := stats.For("C14")
	rapid.Check(t, func(t *rapid.T) {
		max := rapid.IntRange(1, 3).Draw(t, "maxConsecutiveRestarts")
		backoff := time.Duration(rapid.IntRange(0, 1).Draw(t, "backoffMs")) * time.Millisecond
		var cmu sync.Mutex
		completes := map[datatransfer.ChannelID]int{}
		// the accept timeout: off, or a few milliseconds with the responder's answer arriving
		// during the open call / right after it / never
		acceptTO := time.Duration(rapid.SampledFrom([]int{0, 0, 12}).Draw(t, "acceptTimeoutMs")) * time.Millisecond
		acceptMode := "after-open"
		if acceptTO > 0 {
			acceptMode = rapid.SampledFrom([]string{"during-open", "after-open", "never"}).Draw(t, "responderAnswers")
		}
		cfg := channelmonitor.Config{
			AcceptTimeout:          acceptTO,
			RestartDebounce:        time.Millisecond,
			RestartBackoff:         backoff,
			MaxConsecutiveRestarts: uint32(max),
			OnRestartComplete: func(id datatransfer.ChannelID) {
				cmu.Lock()
				completes[id]++
				cmu.Unlock()
			},
		}
		r := newMgrRigOpts(t, gen.Peer(0), dbl.NewRecDatastore(), []dtimpl.DataTransferOption{dtimpl.ChannelRestartConfig(cfg)}, "T/a")
		defer r.stop()
		var log []string
		log = append(log, fmt.Sprintf("monitor: max consecutive restarts %d, debounce 1ms, backoff %s, complete timeout off", max, backoff))
		role := rapid.SampledFrom([]string{"createPush", "createPull"}).Draw(t, "role")
		v := datatransfer.TypedVoucher{Type: "T/a", Voucher: basicnode.NewString("v")}
		log = append(log, fmt.Sprintf("accept timeout %s, responder answers: %s", acceptTO, acceptMode))
		if acceptMode == "during-open" {
			// a fast responder: its accepting response is processed before the open call has returned
			answer := func(tid datatransfer.TransferID) {
				done := make(chan struct{})
				go func() {
					defer close(done)
					resp, _ := message.NewResponse(tid, true, false, nil)
					chid := datatransfer.ChannelID{Initiator: r.self, Responder: gen.Peer(1), ID: tid}
					_ = r.ev().OnResponseReceived(chid, resp)
				}()
				<-done
			}
			if role == "createPush" {
				r.net.OnSend = func(s dbl.Sent) {
					if req, ok := s.Msg.(datatransfer.Request); ok && s.Msg.IsRequest() && req.IsNew() && s.To == gen.Peer(1) {
						answer(s.Msg.TransferID())
					}
				}
			} else {
				r.tr.OnCall = func(call dbl.TCall) {
					if call.Kind == "open" && call.Msg != nil && call.Chid.Responder == gen.Peer(1) {
						if req, ok := call.Msg.(datatransfer.Request); ok && req.IsNew() {
							answer(call.Chid.ID)
						}
					}
				}
			}
		}
		tOpen := time.Now() // the monitor's accept timer is started inside the open call, i.e. after this instant
		c, err := r.open(role, gen.Peer(1), 0, v, simpleCid(7), strNode("sel"), false)
		if err != nil {
			mfail(t, log, "HARNESS/setup", "open %s: %v", role, err)
		}
		r.net.OnSend, r.tr.OnCall = nil, nil
		started := rapid.Bool().Draw(t, "started") || acceptTO > 0
		if acceptMode == "never" {
			// nobody answers: the monitor has to close the channel with an error once the timeout has passed
			t0 := time.Now()
			st, ok := r.settleTerminal(c.chid)
			if !ok || st.Status() != datatransfer.Failed {
				mfail(t, log, "C14/no-verdict", "no Accept arrived within the accept timeout %s but the channel was not closed with an error (status %s after %s)", acceptTO, datatransfer.Statuses[st.Status()], time.Since(t0).Round(time.Millisecond))
			}
			if time.Since(tOpen) < acceptTO {
				mfail(t, log, "C14/early-verdict", "the accept timeout %s fired %s after the open call began", acceptTO, time.Since(tOpen))
			}
			r.syncAll()
			nErr := 0
			for _, p := range r.pub.entries(c.chid) {
				if p.Code == datatransfer.Error {
					nErr++
				}
			}
			if nErr != 1 {
				mfail(t, log, "C14/verdict-count", "%d Error events for one accept-timeout verdict", nErr)
			}
			sp.Eval()
			sp.Nontrivial(stats.FP("mgr-monitor-accept-timeout", role))
			sp.Class("manager_monitor_accept_timeout_verdict")
			return
		}
		if acceptMode == "during-open" {
			switch role {
			case "createPush":
				r.ev().OnTransferInitiated(c.chid)
			case "createPull":
				_ = r.ev().OnChannelOpened(c.chid)
				r.ev().OnTransferInitiated(c.chid)
			}
		} else if started {
			r.toOngoing(c)
		}
		if acceptTO > 0 {
			// The Accept event reaches the monitor through the (asynchronous) event notifier; once the
			// fence has passed, every subscriber has it. Only when that happened comfortably before the
			// timer could expire is the case judged - on a loaded machine a timeout of milliseconds can
			// expire honestly.
			r.syncAll()
			inTime := time.Since(tOpen) < acceptTO/2
			if !inTime {
				sp.Class("manager_monitor_accept_too_slow_to_judge")
			}
			time.Sleep(3 * acceptTO)
			if !inTime {
				if st := r.sync(c.chid); isTerminal(st.Status()) || isCleanup(st.Status()) {
					sp.Eval()
					return
				}
			}
			if st := r.sync(c.chid); inTime && (st.Status() == datatransfer.Failed || st.Status() == datatransfer.Failing) {
				mfail(t, log, "C14/accept-timeout-fired-although-accepted", "the responder's Accept arrived (%s) within the accept timeout %s, yet the monitor closed the channel: %q", acceptMode, acceptTO, st.Message())
			}
			sp.Class("manager_monitor_accepted_in_time_" + acceptMode)
		}
		st := r.sync(c.chid)
		log = append(log, fmt.Sprintf("open %s -> %s", c.String(), datatransfer.Statuses[st.Status()]))
		c.pubSeen = r.pub.count(c.chid)

		plan := &attemptPlan{}
		isRestartReq := func(m datatransfer.Message) bool {
			req, ok := m.(datatransfer.Request)
			return ok && m.IsRequest() && req.IsRestart()
		}
		r.net.SetConnErrFn(func(p peer.ID) error {
			if p != c.other {
				return nil
			}
			return plan.connect()
		})
		if c.pull() {
			r.tr.SetErrFn(func(call dbl.TCall) error {
				if call.Kind == "open" && call.Chid == c.chid && call.Msg != nil && isRestartReq(call.Msg) {
					return plan.send()
				}
				return nil
			})
		} else {
			r.net.SetSendErr(func(to peer.ID, m datatransfer.Message) error {
				if to == c.other && m.TransferID() == c.chid.ID && isRestartReq(m) {
					return plan.send()
				}
				return nil
			})
		}
		consecutive := 0
		rounds := rapid.IntRange(1, 5).Draw(t, "rounds")
		var nextBlock int64
		gaveUp := false
		sawFailedSend, sawRetry := false, false
		for round := 1; round <= rounds && !gaveUp; round++ {
			if started && rapid.Bool().Draw(t, "progress") {
				nextBlock++
				_, _ = r.report(c, nextBlock, 100, true)
				r.syncAll()
				consecutive = 0
				log = append(log, fmt.Sprintf("round %d: one block moved (counter reset)", round))
			}
			outs := rapid.SliceOfN(rapid.SampledFrom([]string{"ok", "ok", "sendFail", "connectFail"}), 1, max+1).Draw(t, "attemptOutcomes")
			plan.set(outs)
			// reference: what the configured bound allows
			wantAttempts, wantOK, wantErr, verdict := 0, 0, 0, false
			for {
				consecutive++
				if consecutive > max {
					verdict = true
					break
				}
				o := "ok"
				if wantAttempts < len(outs) {
					o = outs[wantAttempts]
				}
				wantAttempts++
				if o == "sendFail" {
					wantErr++
					sawFailedSend = true
				}
				if o == "ok" {
					wantOK++
					break
				}
				sawRetry = true
			}
			cmu.Lock()
			done0 := completes[c.chid]
			cmu.Unlock()
			trigger := rapid.SampledFrom([]string{"send-error", "receive-error"}).Draw(t, "trigger")
			if trigger == "send-error" {
				_ = r.ev().OnSendDataError(c.chid, errors.New("connection reset"))
			} else {
				_ = r.ev().OnReceiveDataError(c.chid, errors.New("connection reset"))
			}
			log = append(log, fmt.Sprintf("round %d: %s with attempt outcomes %v; reference: %d attempts, verdict=%v", round, trigger, outs, wantAttempts, verdict))
			// wait for the round's outcome
			deadline := time.Now().Add(watchdog)
			var status datatransfer.Status
			for {
				cs, err := r.flush(c.chid)
				if err != nil {
					mfail(t, log, "HARNESS/query", "%v", err)
				}
				status = cs.Status()
				cmu.Lock()
				done := completes[c.chid] > done0
				cmu.Unlock()
				if status == datatransfer.Failed || (!verdict && done) {
					break
				}
				if time.Now().After(deadline) {
					if verdict {
						mfail(t, log, "C14/no-verdict", "restarting failed persistently (%d consecutive attempts allowed) but the channel was not closed with an error within %s: status %s", max, watchdog, datatransfer.Statuses[status])
					}
					mfail(t, log, "C14/restart-not-completed", "restart did not complete within %s: status %s", watchdog, datatransfer.Statuses[status])
				}
				time.Sleep(100 * time.Microsecond)
			}
			r.syncAll()
			connects, ok, failed := plan.counts()
			log = append(log, fmt.Sprintf("  -> %d dials, %d restart requests issued, %d failed; status %s", connects, ok, failed, datatransfer.Statuses[status]))
			if connects != wantAttempts || ok != wantOK || failed != wantErr {
				mfail(t, log, "C14/attempts", "round %d: %d dials / %d issued / %d failed restart requests, reference %d / %d / %d (bound %d)", round, connects, ok, failed, wantAttempts, wantOK, wantErr, max)
			}
			if verdict {
				gaveUp = true
				if status != datatransfer.Failed {
					mfail(t, log, "C14/no-verdict", "bound reached but channel is %s", datatransfer.Statuses[status])
				}
			} else if status == datatransfer.Failed {
				mfail(t, log, "C14/early-verdict", "channel closed with an error after %d consecutive attempts without progress, %d are allowed", consecutive, max)
			}
		}
		pubs := newPubs(r, c)
		nErr := 0
		for _, p := range pubs {
			if p.Code == datatransfer.Error {
				nErr++
			}
		}
		if gaveUp {
			if nErr != 1 {
				mfail(t, log, "C14/verdict-count", "%d Error events for one verdict", nErr)
			}
			// the monitor is gone: a further error starts nothing
			plan.set(nil)
			_ = r.ev().OnSendDataError(c.chid, errors.New("late"))
			time.Sleep(4 * time.Millisecond)
			if connects, _, _ := plan.counts(); connects != 0 {
				mfail(t, log, "C14/restart-after-verdict", "%d dials after the channel was closed with an error", connects)
			}
		} else if nErr != 0 {
			mfail(t, log, "C14/early-verdict", "Error event without the bound being reached")
		}
		sp.Eval()
		if sawRetry || gaveUp {
			fp := stats.FP("mgr-monitor", role, max, started, log[1:])
			sp.Nontrivial(fp)
			if sp.WantSample() {
				sp.Sample(fp, map[string]any{"engine": "mgrx+monitor", "case": log})
			}
		}
		sp.Class("manager_with_real_monitor")
		if gaveUp {
			sp.Class("manager_monitor_verdict")
		}
		if sawFailedSend {
			sp.Class("manager_monitor_restart_request_failed")
		}
	})
}
