package hx

import (
	"errors"
	"fmt"
	"sync"
	"testing"
	"time"

	"github.com/ipld/go-ipld-prime/node/basicnode"
	"github.com/libp2p/go-libp2p/core/peer"
	"pgregory.net/rapid"

	datatransfer "github.com/filecoin-project/go-data-transfer/v2"
	"github.com/filecoin-project/go-data-transfer/v2/channelmonitor"
	dtimpl "github.com/filecoin-project/go-data-transfer/v2/impl"

	"verif/harness/dbl"
	"verif/harness/gen"
	"verif/harness/stats"
)

// attemptPlan scripts the outcome of the successive restart attempts of one
// round: each attempt first dials (connect) and then issues the restart request
// (a network send for a push channel, a transport open for a pull channel).
type attemptPlan struct {
	mu       sync.Mutex
	plan     []string // connectFail | sendFail | ok ; beyond the end: ok
	i        int
	connects int
	sendsOK  int
	sendsErr int
}

func (p *attemptPlan) set(plan []string) {
	p.mu.Lock()
	p.plan, p.i, p.connects, p.sendsOK, p.sendsErr = plan, 0, 0, 0, 0
	p.mu.Unlock()
}

func (p *attemptPlan) cur() string {
	if p.i < len(p.plan) {
		return p.plan[p.i]
	}
	return "ok"
}

func (p *attemptPlan) connect() error {
	p.mu.Lock()
	defer p.mu.Unlock()
	p.connects++
	if p.cur() == "connectFail" {
		p.i++
		return errors.New("dial failed")
	}
	return nil
}

func (p *attemptPlan) send() error {
	p.mu.Lock()
	defer p.mu.Unlock()
	o := p.cur()
	p.i++
	if o == "sendFail" {
		p.sendsErr++
		return errors.New("stream reset")
	}
	p.sendsOK++
	return nil
}

func (p *attemptPlan) counts() (connects, ok, failed int) {
	p.mu.Lock()
	defer p.mu.Unlock()
	return p.connects, p.sendsOK, p.sendsErr
}

// TestC14_MgrMonitor: the real manager with its real channel monitor over the
// recording doubles, in real time with millisecond settings. Rounds of
// (optional data progress, scripted attempt outcomes, one transport error);
// after each round the reference counter says how many attempts were made and
// whether the monitor has to give its verdict (channel closed with an error).
func TestC14_MgrMonitor(t *testing.T) {
	sp := stats.For("C14")
	rapid.Check(t, func(t *rapid.T) {
		max := rapid.IntRange(1, 3).Draw(t, "maxConsecutiveRestarts")
		backoff := time.Duration(rapid.IntRange(0, 1).Draw(t, "backoffMs")) * time.Millisecond
		var cmu sync.Mutex
		completes := map[datatransfer.ChannelID]int{}
		cfg := channelmonitor.Config{
			RestartDebounce:        time.Millisecond,
			RestartBackoff:         backoff,
			MaxConsecutiveRestarts: uint32(max),
			OnRestartComplete: func(id datatransfer.ChannelID) {
				cmu.Lock()
				completes[id]++
				cmu.Unlock()
			},
		}
		r := newMgrRigOpts(t, gen.Peer(0), dbl.NewRecDatastore(), []dtimpl.DataTransferOption{dtimpl.ChannelRestartConfig(cfg)}, "T/a")
		defer r.stop()
		var log []string
		log = append(log, fmt.Sprintf("monitor: max consecutive restarts %d, debounce 1ms, backoff %s, accept/complete timeouts off", max, backoff))
		role := rapid.SampledFrom([]string{"createPush", "createPull"}).Draw(t, "role")
		v := datatransfer.TypedVoucher{Type: "T/a", Voucher: basicnode.NewString("v")}
		c, err := r.open(role, gen.Peer(1), 0, v, simpleCid(7), strNode("sel"), false)
		if err != nil {
			mfail(t, log, "HARNESS/setup", "open %s: %v", role, err)
		}
		started := rapid.Bool().Draw(t, "started")
		if started {
			r.toOngoing(c)
		}
		st := r.sync(c.chid)
		log = append(log, fmt.Sprintf("open %s -> %s", c.String(), datatransfer.Statuses[st.Status()]))
		c.pubSeen = r.pub.count(c.chid)

		plan := &attemptPlan{}
		isRestartReq := func(m datatransfer.Message) bool {
			req, ok := m.(datatransfer.Request)
			return ok && m.IsRequest() && req.IsRestart()
		}
		r.net.SetConnErrFn(func(p peer.ID) error {
			if p != c.other {
				return nil
			}
			return plan.connect()
		})
		if c.pull() {
			r.tr.SetErrFn(func(call dbl.TCall) error {
				if call.Kind == "open" && call.Chid == c.chid && call.Msg != nil && isRestartReq(call.Msg) {
					return plan.send()
				}
				return nil
			})
		} else {
			r.net.SetSendErr(func(to peer.ID, m datatransfer.Message) error {
				if to == c.other && m.TransferID() == c.chid.ID && isRestartReq(m) {
					return plan.send()
				}
				return nil
			})
		}
		consecutive := 0
		rounds := rapid.IntRange(1, 5).Draw(t, "rounds")
		var nextBlock int64
		gaveUp := false
		sawFailedSend, sawRetry := false, false
		for round := 1; round <= rounds && !gaveUp; round++ {
			if started && rapid.Bool().Draw(t, "progress") {
				nextBlock++
				_, _ = r.report(c, nextBlock, 100, true)
				r.syncAll()
				consecutive = 0
				log = append(log, fmt.Sprintf("round %d: one block moved (counter reset)", round))
			}
			outs := rapid.SliceOfN(rapid.SampledFrom([]string{"ok", "ok", "sendFail", "connectFail"}), 1, max+1).Draw(t, "attemptOutcomes")
			plan.set(outs)
			// reference: what the configured bound allows
			wantAttempts, wantOK, wantErr, verdict := 0, 0, 0, false
			for {
				consecutive++
				if consecutive > max {
					verdict = true
					break
				}
				o := "ok"
				if wantAttempts < len(outs) {
					o = outs[wantAttempts]
				}
				wantAttempts++
				if o == "sendFail" {
					wantErr++
					sawFailedSend = true
				}
				if o == "ok" {
					wantOK++
					break
				}
				sawRetry = true
			}
			cmu.Lock()
			done0 := completes[c.chid]
			cmu.Unlock()
			trigger := rapid.SampledFrom([]string{"send-error", "receive-error"}).Draw(t, "trigger")
			if trigger == "send-error" {
				_ = r.ev().OnSendDataError(c.chid, errors.New("connection reset"))
			} else {
				_ = r.ev().OnReceiveDataError(c.chid, errors.New("connection reset"))
			}
			log = append(log, fmt.Sprintf("round %d: %s with attempt outcomes %v; reference: %d attempts, verdict=%v", round, trigger, outs, wantAttempts, verdict))
			// wait for the round's outcome
			deadline := time.Now().Add(watchdog)
			var status datatransfer.Status
			for {
				cs, err := r.flush(c.chid)
				if err != nil {
					mfail(t, log, "HARNESS/query", "%v", err)
				}
				status = cs.Status()
				cmu.Lock()
				done := completes[c.chid] > done0
				cmu.Unlock()
				if status == datatransfer.Failed || (!verdict && done) {
					break
				}
				if time.Now().After(deadline) {
					if verdict {
						mfail(t, log, "C14/no-verdict", "restarting failed persistently (%d consecutive attempts allowed) but the channel was not closed with an error within %s: status %s", max, watchdog, datatransfer.Statuses[status])
					}
					mfail(t, log, "C14/restart-not-completed", "restart did not complete within %s: status %s", watchdog, datatransfer.Statuses[status])
				}
				time.Sleep(100 * time.Microsecond)
			}
			r.syncAll()
			connects, ok, failed := plan.counts()
			log = append(log, fmt.Sprintf("  -> %d dials, %d restart requests issued, %d failed; status %s", connects, ok, failed, datatransfer.Statuses[status]))
			if connects != wantAttempts || ok != wantOK || failed != wantErr {
				mfail(t, log, "C14/attempts", "round %d: %d dials / %d issued / %d failed restart requests, reference %d / %d / %d (bound %d)", round, connects, ok, failed, wantAttempts, wantOK, wantErr, max)
			}
			if verdict {
				gaveUp = true
				if status != datatransfer.Failed {
					mfail(t, log, "C14/no-verdict", "bound reached but channel is %s", datatransfer.Statuses[status])
				}
			} else if status == datatransfer.Failed {
				mfail(t, log, "C14/early-verdict", "channel closed with an error after %d consecutive attempts without progress, %d are allowed", consecutive, max)
			}
		}
		pubs := newPubs(r, c)
		nErr := 0
		for _, p := range pubs {
			if p.Code == datatransfer.Error {
				nErr++
			}
		}
		if gaveUp {
			if nErr != 1 {
				mfail(t, log, "C14/verdict-count", "%d Error events for one verdict", nErr)
			}
			// the monitor is gone: a further error starts nothing
			plan.set(nil)
			_ = r.ev().OnSendDataError(c.chid, errors.New("late"))
			time.Sleep(4 * time.Millisecond)
			if connects, _, _ := plan.counts(); connects != 0 {
				mfail(t, log, "C14/restart-after-verdict", "%d dials after the channel was closed with an error", connects)
			}
		} else if nErr != 0 {
			mfail(t, log, "C14/early-verdict", "Error event without the bound being reached")
		}
		sp.Eval()
		if sawRetry || gaveUp {
			fp := stats.FP("mgr-monitor", role, max, started, log[1:])
			sp.Nontrivial(fp)
			if sp.WantSample() {
				sp.Sample(fp, map[string]any{"engine": "mgrx+monitor", "case": log})
			}
		}
		sp.Class("manager_with_real_monitor")
		if gaveUp {
			sp.Class("manager_monitor_verdict")
		}
		if sawFailedSend {
			sp.Class("manager_monitor_restart_request_failed")
		}
	})
}
