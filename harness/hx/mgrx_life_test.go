package hx

import (
	"context"
	"errors"
	"fmt"
	"strings"
	"testing"
	"time"

	"github.com/ipld/go-ipld-prime/node/basicnode"
	"github.com/libp2p/go-libp2p/core/peer"
	"pgregory.net/rapid"

	datatransfer "github.com/filecoin-project/go-data-transfer/v2"
	"github.com/filecoin-project/go-data-transfer/v2/message"

	"verif/harness/dbl"
	"verif/harness/gen"
	"verif/harness/stats"
)

// openRole opens a channel in a given role and drives it to Ongoing.
func openRole(t *rapid.T, r *mgrRig, log *[]string, role string, tid datatransfer.TransferID, viaTransport bool) *mchan {
	v := datatransfer.TypedVoucher{Type: "T/a", Voucher: basicnode.NewString("v")}
	c, err := r.open(role, gen.Peer(1), tid, v, simpleCid(7), strNode("sel"), viaTransport && role == "receivePull")
	if err != nil {
		mfail(t, *log, "HARNESS/setup", "opening %s: %v", role, err)
	}
	r.toOngoing(c)
	st := r.sync(c.chid)
	if st == nil || st.Status() != datatransfer.Ongoing {
		mfail(t, *log, "HARNESS/setup", "%s not Ongoing after setup", role)
	}
	c.pubSeen = r.pub.count(c.chid)
	*log = append(*log, "open "+c.String())
	return c
}

// ---------------------------------------------------------------------------
// C01 (last clause) and C03 on the manager level

func TestC03_Mgrx(t *testing.T) {
	sp := stats.For("C03")
	sp1 := stats.For("C01")
	rapid.Check(t, func(t *rapid.T) {
		r := newMgrRig(t, gen.Peer(0), dbl.NewRecDatastore(), "T/a")
		defer r.stop()
		var log []string
		scenario := rapid.SampledFrom([]string{"local-only-pull", "pull-not-initiated", "initiator-signals", "responder-completes", "transport-error"}).Draw(t, "scenario")
		log = append(log, "scenario "+scenario)
		switch scenario {
		case "local-only-pull", "pull-not-initiated":
			// a pull satisfied from the initiator's own store before any acceptance arrived
			v := datatransfer.TypedVoucher{Type: "T/a", Voucher: basicnode.NewString("v")}
			c, err := r.open("createPull", gen.Peer(1), 0, v, simpleCid(7), strNode("sel"), false)
			if err != nil {
				mfail(t, log, "HARNESS/setup", "%v", err)
			}
			_ = r.ev().OnChannelOpened(c.chid)
			if scenario == "local-only-pull" {
				r.ev().OnTransferInitiated(c.chid)
			}
			nb := rapid.IntRange(0, 3).Draw(t, "blocksFromLocalStore")
			for i := 1; i <= nb; i++ {
				_ = r.ev().OnDataReceived(c.chid, linkOf(simpleCid(i)), 10, int64(i), false)
			}
			tr0 := r.tr.Len()
			_ = r.ev().OnChannelCompleted(c.chid, nil)
			st, ok := r.settle(c.chid)
			r.syncAll()
			if !ok {
				mfail(t, log, "C09/no-settle", "no settle")
			}
			if scenario == "local-only-pull" {
				if st.Status() != datatransfer.Completed {
					mfail(t, log, "C01/local-only-pull-not-completed", "pull finished locally before acceptance is %s, want Completed", datatransfer.Statuses[st.Status()])
				}
				if countKind(r.tr.Since(tr0), "cleanup", c.chid) != 1 {
					mfail(t, log, "C09/cleanup-count", "local-only completion: %d transport cleanups", countKind(r.tr.Since(tr0), "cleanup", c.chid))
				}
				sp1.Class("local_only_pull_completed")
			} else if st.Status() == datatransfer.Completed || st.Status() == datatransfer.Completing {
				mfail(t, log, "C03/completion-rule", "pull whose transfer was never initiated completed on the local finish alone")
			}
			sp1.Eval()
			sp1.Nontrivial(stats.FP("local-only", scenario, nb))
			if sp1.WantSample() {
				sp1.Sample(stats.FP("local-only", scenario, nb), map[string]any{"engine": "mgrx", "case": append(log, fmt.Sprintf("final status %s", datatransfer.Statuses[st.Status()]))})
			}
		case "transport-error":
			// a transport that finished with an error never yields a Complete message nor Completed
			role := rapid.SampledFrom(roles).Draw(t, "role")
			c := openRole(t, r, &log, role, 951, rapid.Bool().Draw(t, "viaTransport"))
			for i := 1; i <= rapid.IntRange(0, 3).Draw(t, "blocks"); i++ {
				_, _ = r.report(c, int64(i), 50, true)
			}
			if c.selfInit() && rapid.Bool().Draw(t, "responderSaidComplete") {
				m, _ := message.CompleteResponse(c.chid.ID, true, false, nil)
				deliver(r, c.other, m, false)
			}
			sent0 := r.net.SentLen()
			_ = r.ev().OnChannelCompleted(c.chid, errors.New("graphsync response did not complete"))
			st, _ := r.settle(c.chid)
			r.syncAll()
			for _, s := range r.net.SentSince(sent0) {
				if resp, ok := s.Msg.(datatransfer.Response); ok && !s.Msg.IsRequest() && resp.IsComplete() {
					mfail(t, log, "C01/complete-after-transport-error", "a Complete message was sent although the transport finished with an error")
				}
			}
			if st.Status() != datatransfer.Failed {
				mfail(t, log, "C01/completed-after-transport-error", "transport finished with an error but the %s channel is %s", role, datatransfer.Statuses[st.Status()])
			}
			sp1.Eval()
			sp1.Nontrivial(stats.FP("transport-error", role))
			sp1.Class("transport_error_fails_channel")
		case "initiator-signals":
			role := rapid.SampledFrom([]string{"createPush", "createPull"}).Draw(t, "role")
			var c *mchan
			if rapid.IntRange(0, 3).Draw(t, "acceptanceLearntFromRestartResponse") == 0 {
				// the responder accepted, but its first response never reached this initiator (it was
				// cut off or replaced before the response arrived); it restarts the channel and the
				// responder's accepted restart response is the first it hears of the acceptance
				v := datatransfer.TypedVoucher{Type: "T/a", Voucher: basicnode.NewString("v")}
				var err error
				c, err = r.open(role, gen.Peer(1), 0, v, simpleCid(7), strNode("sel"), false)
				if err != nil {
					mfail(t, log, "HARNESS/setup", "opening %s: %v", role, err)
				}
				if role == "createPull" {
					_ = r.ev().OnChannelOpened(c.chid)
					r.ev().OnTransferInitiated(c.chid)
				}
				if err := r.mgr.RestartDataTransferChannel(bg(), c.chid); err != nil {
					mfail(t, log, "HARNESS/setup", "restart: %v", err)
				}
				rr, _ := message.RestartResponse(c.chid.ID, true, false, nil)
				deliver(r, c.other, rr, rapid.Bool().Draw(t, "restartResponseViaTransport"))
				r.ev().OnTransferInitiated(c.chid)
				st := r.sync(c.chid)
				log = append(log, fmt.Sprintf("open %s; first response lost; restart accepted by the responder -> %s", c.String(), datatransfer.Statuses[st.Status()]))
				c.pubSeen = r.pub.count(c.chid)
				sp.Class("acceptance_learnt_from_restart_response")
			} else {
				c = openRole(t, r, &log, role, 0, false)
			}
			// a generated order of: local finish, paused Complete (0..2 times), final Complete; over both paths
			nPaused := rapid.IntRange(0, 2).Draw(t, "pausedCompletes")
			var seq []string
			for i := 0; i < nPaused; i++ {
				seq = append(seq, "complete-paused")
			}
			seq = append(seq, "complete")
			at := rapid.IntRange(0, len(seq)).Draw(t, "finishAt")
			seq = append(seq[:at:at], append([]string{"finish"}, seq[at:]...)...)
			finished, gotFinal := false, false
			var wantBytes uint64
			var nextBlock int64
			for _, s := range seq {
				viaTransport := rapid.Bool().Draw(t, "viaTransport")
				// blocks keep moving until the local transport has finished, whatever the responder said meanwhile
				for k := rapid.IntRange(0, 2).Draw(t, "blocksBefore"); k > 0 && !finished; k-- {
					nextBlock++
					_, _ = r.report(c, nextBlock, uint64(100+nextBlock), true)
					wantBytes += uint64(100 + nextBlock)
				}
				switch s {
				case "finish":
					_ = r.ev().OnChannelCompleted(c.chid, nil)
					finished = true
				case "complete", "complete-paused":
					m, _ := message.CompleteResponse(c.chid.ID, true, s == "complete-paused", nil)
					deliver(r, c.other, m, viaTransport)
					if s == "complete" {
						gotFinal = true
					}
				}
				st := r.sync(c.chid)
				if isCleanup(st.Status()) {
					st, _ = r.settle(c.chid)
				}
				log = append(log, fmt.Sprintf("%s (transport path=%v) -> %s", s, viaTransport, datatransfer.Statuses[st.Status()]))
				done := st.Status() == datatransfer.Completed
				if done != (finished && gotFinal) {
					mfail(t, log, "C03/completion-rule", "initiator is %s with finished=%v finalComplete=%v", datatransfer.Statuses[st.Status()], finished, gotFinal)
				}
				// every block reported while the transfer was running is counted, once
				got := st.Received()
				if c.localSender() {
					got = st.Queued()
					if st.Sent() != wantBytes {
						mfail(t, log, "C01/totals", "sent total %d after %d bytes were reported sent (status %s)", st.Sent(), wantBytes, datatransfer.Statuses[st.Status()])
					}
				}
				if got != wantBytes {
					mfail(t, log, "C01/totals", "transferred total %d after %d bytes of unique blocks were reported (status %s)", got, wantBytes, datatransfer.Statuses[st.Status()])
				}
			}
			sp.Eval()
			fp := stats.FP("mgrx-init", role, strings.Join(seq, ">"))
			sp.Nontrivial(fp)
			sp.Sample(fp, map[string]any{"engine": "mgrx", "case": log})
			sp.Class("mgrx_initiator_signal_orders")
		case "responder-completes":
			role := rapid.SampledFrom([]string{"receivePush", "receivePull"}).Draw(t, "role")
			reqFinal := rapid.Bool().Draw(t, "requiresFinalization")
			r.vals["T/a"].Push(dbl.Outcome{Result: datatransfer.ValidationResult{Accepted: true, RequiresFinalization: reqFinal}})
			c := openRole(t, r, &log, role, 950, rapid.Bool().Draw(t, "viaTransport"))
			sent0 := r.net.SentLen()
			_ = r.ev().OnChannelCompleted(c.chid, nil)
			st := r.sync(c.chid)
			if isCleanup(st.Status()) {
				st, _ = r.settle(c.chid)
			}
			var completes []datatransfer.Response
			for _, s := range r.net.SentSince(sent0) {
				if resp, ok := s.Msg.(datatransfer.Response); ok && !s.Msg.IsRequest() && resp.IsComplete() && s.To == c.other {
					completes = append(completes, resp)
				}
			}
			log = append(log, fmt.Sprintf("OnChannelCompleted(nil) with RequiresFinalization=%v -> %s, %d Complete message(s)", reqFinal, datatransfer.Statuses[st.Status()], len(completes)))
			if len(completes) != 1 || completes[0].IsPaused() != reqFinal || !completes[0].Accepted() {
				mfail(t, log, "C03/complete-message", "responder finished: %d Complete messages, paused flag must equal RequiresFinalization=%v", len(completes), reqFinal)
			}
			v, _ := vecOf(st)
			if reqFinal {
				if st.Status() != datatransfer.Finalizing || !v.RespPaused || !v.SelfPaused {
					mfail(t, log, "C03/finalizing", "responder requiring finalization is %s (paused=%v)", datatransfer.Statuses[st.Status()], v.RespPaused)
				}
				// bookkeeping does not release it
				_ = r.ev().OnRequestDisconnected(c.chid, errors.New("x"))
				if st2 := r.sync(c.chid); st2.Status() != datatransfer.Finalizing {
					mfail(t, log, "C03/left-finalizing", "responder left Finalizing through a notice")
				}
				// neither does a validation that still requires finalization: a further update, or the
				// initiator restarting the channel (re-validated with the original terms)
				for k := rapid.IntRange(0, 2).Draw(t, "stillFinalizingSteps"); k > 0; k-- {
					sentK := r.net.SentLen()
					still := datatransfer.ValidationResult{Accepted: true, RequiresFinalization: true,
						DataLimit: rapid.SampledFrom([]uint64{0, 0, 1, 1 << 40}).Draw(t, "limitWhileFinalizing")}
					step := rapid.SampledFrom([]string{"update-still-requires", "restart-request-still-requires"}).Draw(t, "stillStep")
					if step == "update-still-requires" {
						_ = r.mgr.UpdateValidationStatus(bg(), c.chid, still)
					} else {
						r.vals["T/a"].Push(dbl.Outcome{Result: still})
						deliver(r, c.other, newRequestMsg(c.chid.ID, true, c.pull(), c.voucher, c.base, c.sel), c.viaTrans && c.pull())
					}
					stK := r.sync(c.chid)
					log = append(log, fmt.Sprintf("%s (limit %d) -> %s", step, still.DataLimit, datatransfer.Statuses[stK.Status()]))
					if stK.Status() != datatransfer.Finalizing {
						mfail(t, log, "C03/left-finalizing", "responder left Finalizing through %s although the validation still requires finalization: now %s", step, datatransfer.Statuses[stK.Status()])
					}
					for _, s := range r.net.SentSince(sentK) {
						if resp, ok := s.Msg.(datatransfer.Response); ok && !s.Msg.IsRequest() && (resp.IsComplete() || resp.IsRestart()) && !resp.IsPaused() {
							mfail(t, log, "C03/unpaused-reply-while-finalizing", "%s answered with an un-paused reply (complete=%v restart=%v) while finalization is still required", step, resp.IsComplete(), resp.IsRestart())
						}
					}
					sp.Class("finalizing_survives_" + step)
				}
				release := rapid.SampledFrom([]string{"update", "resume"}).Draw(t, "release")
				sent1 := r.net.SentLen()
				if release == "update" {
					_ = r.mgr.UpdateValidationStatus(bg(), c.chid, datatransfer.ValidationResult{Accepted: true})
				} else {
					_ = r.mgr.ResumeDataTransferChannel(bg(), c.chid)
				}
				st3, _ := r.settle(c.chid)
				r.syncAll()
				log = append(log, fmt.Sprintf("release by %s -> %s", release, datatransfer.Statuses[st3.Status()]))
				if st3.Status() != datatransfer.Completed {
					mfail(t, log, "C03/finalize-release", "finalization released by %s but channel is %s", release, datatransfer.Statuses[st3.Status()])
				}
				if release == "update" {
					final := 0
					for _, s := range r.net.SentSince(sent1) {
						if resp, ok := s.Msg.(datatransfer.Response); ok && !s.Msg.IsRequest() && resp.IsComplete() && !resp.IsPaused() {
							final++
						}
					}
					if final != 1 {
						mfail(t, log, "C03/final-complete-message", "%d un-paused Complete messages after the releasing update", final)
					}
				}
			} else if st.Status() != datatransfer.Completed {
				mfail(t, log, "C03/complete", "responder without finalization is %s after finishing", datatransfer.Statuses[st.Status()])
			}
			sp.Eval()
			fp := stats.FP("mgrx-resp", role, reqFinal)
			sp.Nontrivial(fp)
			sp.Sample(fp, map[string]any{"engine": "mgrx", "case": log})
			sp.Class("mgrx_responder_finish")
		}
	})
}

// ---------------------------------------------------------------------------
// C08 on the manager level

func TestC08_Mgrx(t *testing.T) {
	sp := stats.For("C08")
	rapid.Check(t, func(t *rapid.T) {
		r := newMgrRig(t, gen.Peer(0), dbl.NewRecDatastore(), "T/a")
		defer r.stop()
		var log []string
		role := rapid.SampledFrom([]string{"receivePush", "receivePull"}).Draw(t, "role")
		n := rapid.IntRange(2, 10).Draw(t, "blocks")
		sizes := make([]uint64, n)
		var sums []uint64
		var sum uint64
		for i := range sizes {
			sizes[i] = uint64(rapid.IntRange(1, 500).Draw(t, "size"))
			sum += sizes[i]
			sums = append(sums, sum)
		}
		limit := sums[rapid.IntRange(0, n-2).Draw(t, "limitAt")] + uint64(rapid.IntRange(-1, 1).Draw(t, "limitDelta")+1) - 1
		if limit == 0 {
			limit = 1
		}
		r.vals["T/a"].Push(dbl.Outcome{Result: datatransfer.ValidationResult{Accepted: true, DataLimit: limit}})
		c := openRole(t, r, &log, role, 960, rapid.Bool().Draw(t, "viaTransport"))
		log = append(log, fmt.Sprintf("sizes=%v initial limit=%d", sizes, limit))
		var total uint64
		paused := false
		rounds := 0
		for i := 0; i < n; i++ {
			if paused {
				// re-validate with a boundary-biased new limit
				var newLimit uint64
				switch rapid.IntRange(0, 5).Draw(t, "newLimitKind") {
				case 0:
					newLimit = 0
				case 1:
					newLimit = total
				case 2:
					newLimit = total + 1
				case 3:
					if total > 0 {
						newLimit = total - 1
					}
				case 4:
					newLimit = sum * 4
				case 5:
					newLimit = sums[rapid.IntRange(i, n-1).Draw(t, "raiseAt")]
				}
				accept := rapid.IntRange(0, 7).Draw(t, "acceptUpdate") != 0
				if rapid.IntRange(0, 4).Draw(t, "processRestart") == 0 {
					r.restartProcess([]datatransfer.TypeIdentifier{"T/a"})
					log = append(log, "process restart")
				}
				sent0, tr0 := r.net.SentLen(), r.tr.Len()
				err := r.mgr.UpdateValidationStatus(bg(), c.chid, datatransfer.ValidationResult{Accepted: accept, DataLimit: newLimit})
				st := r.sync(c.chid)
				if isCleanup(st.Status()) {
					st, _ = r.settle(c.chid)
					r.fenceWait()
				}
				v, _ := vecOf(st)
				calls := r.tr.Since(tr0)
				replies := findReply(r, c.chid.ID, c.chid, sent0, tr0, nil)
				log = append(log, fmt.Sprintf("update accept=%v newLimit=%d at total=%d -> err=%v resumes=%d closes=%d replies=%d state=%s", accept, newLimit, total, err, countKind(calls, "resume", c.chid), countKind(calls, "close", c.chid), len(replies), v.Short()))
				if len(replies) != 1 {
					mfail(t, log, "C04/reply-count", "%d replies to the validation update", len(replies))
				}
				if !accept {
					if v.Status != datatransfer.Failed || countKind(calls, "close", c.chid) == 0 || replies[0].msg.Accepted() {
						mfail(t, log, "C08/rejecting-update", "rejecting update: status %s, closes %d", datatransfer.Statuses[v.Status], countKind(calls, "close", c.chid))
					}
					sp.Class("rejecting_update")
					break
				}
				wantResume := newLimit == 0 || newLimit > total
				if newLimit == total {
					sp.Class("new_limit_equals_progress")
				}
				if v.DataLimit != newLimit {
					mfail(t, log, "C08/limit-not-stored", "limit %d stored, update said %d", v.DataLimit, newLimit)
				}
				gotResume := countKind(calls, "resume", c.chid) == 1
				if gotResume != wantResume || replies[0].msg.IsPaused() == wantResume || v.RespPaused == wantResume {
					mfail(t, log, "C08/resume-rule", "update with new limit %d at progress %d: transport resumed=%v reply paused=%v channel paused=%v; resume expected=%v", newLimit, total, gotResume, replies[0].msg.IsPaused(), v.RespPaused, wantResume)
				}
				if wantResume && replies[0].where != "transport-resume" {
					mfail(t, log, "C08/resume-message", "the un-paused reply did not travel with the transport resume (%s)", replies[0].where)
				}
				limit = newLimit
				rounds++
				if !wantResume {
					i--
					continue
				}
				paused = false
			}
			sent0 := r.net.SentLen()
			msg, err := r.report(c, int64(i+1), sizes[i], true)
			total += sizes[i]
			st := r.sync(c.chid)
			v, _ := vecOf(st)
			wantPause := limit != 0 && total >= limit
			log = append(log, fmt.Sprintf("report %d size=%d -> total=%d limit=%d err=%v", i+1, sizes[i], total, limit, err))
			if (err == datatransfer.ErrPause) != wantPause || (err != nil && err != datatransfer.ErrPause) {
				mfail(t, log, "C08/pause-signal", "report %d returned %v at total=%d limit=%d", i+1, err, total, limit)
			}
			if wantPause {
				paused = true
				if !v.RespPaused {
					mfail(t, log, "C08/not-paused", "limit reached but responder not marked paused")
				}
				// the initiator is told
				var notice datatransfer.Message
				where := ""
				if c.pull() {
					notice, where = msg, "returned with the block"
				} else {
					for _, s := range r.net.SentSince(sent0) {
						if s.To == c.chid.Initiator && !s.Msg.IsRequest() && s.Msg.IsUpdate() {
							notice, where = s.Msg, "sent to "+gen.PeerName(s.To)
						} else if !s.Msg.IsRequest() && s.Msg.IsUpdate() {
							mfail(t, log, "C08/pause-notice-wrong-peer", "pause notice sent to %s, initiator is %s", gen.PeerName(s.To), gen.PeerName(c.chid.Initiator))
						}
					}
				}
				if notice == nil || !notice.IsPaused() || notice.IsRequest() || notice.TransferID() != c.chid.ID {
					mfail(t, log, "C08/pause-notice", "limit reached but the initiator was not told (%s)", where)
				}
				if total == limit {
					sp.Class("total_exactly_equal_to_limit")
				}
			} else if msg != nil {
				mfail(t, log, "C08/early-pause-notice", "a message was attached to a report below the limit")
			}
		}
		sp.Eval()
		if rounds > 0 {
			fp := stats.FP("mgrx", role, fmt.Sprint(sizes), log[len(log)-1])
			sp.Nontrivial(fp)
			sp.Sample(fp, map[string]any{"engine": "mgrx", "case": log})
			sp.Class("mgrx_revalidation_rounds")
		}
	})
}

// ---------------------------------------------------------------------------
// C09 on the manager level

func TestC09_Mgrx(t *testing.T) {
	sp := stats.For("C09")
	rapid.Check(t, func(t *rapid.T) {
		r := newMgrRig(t, gen.Peer(0), dbl.NewRecDatastore(), "T/a")
		defer r.stop()
		var log []string
		c := openAny(t, r, &log, "c", 970, gen.Peer(1))
		st, _ := r.flush(c.chid)
		if isTerminal(st.Status()) {
			return
		}
		ending := rapid.SampledFrom([]string{"close", "close-with-error", "incoming-cancel", "rejecting-update"}).Draw(t, "ending")
		if ending == "rejecting-update" && c.selfInit() {
			ending = "close"
		}
		closeErr := rapid.Bool().Draw(t, "transportCloseFails")
		sendFails := rapid.Bool().Draw(t, "cancelSendFails")
		if closeErr {
			r.tr.SetErr("close", errors.New("transport close failed"))
		}
		if sendFails {
			r.net.SetSendErr(func(to peer.ID, m datatransfer.Message) error { return errors.New("send failed") })
		}
		log = append(log, fmt.Sprintf("ending=%s transportCloseFails=%v cancelSendFails=%v", ending, closeErr, sendFails))
		sent0, tr0 := r.net.SentLen(), r.tr.Len()
		cancelViaTransport := rapid.Bool().Draw(t, "cancelViaTransport")
		// a request-scoped caller context: it ends as soon as the close call has returned,
		// while the counterparty is still being notified in the background
		shortCtx := ending == "close" && !sendFails && rapid.Bool().Draw(t, "callerContextEndsAfterCall")
		if shortCtx {
			r.net.SetSendDelay(2 * time.Millisecond)
			log = append(log, "the caller's context is cancelled right after CloseDataTransferChannel returns; sends take 2ms")
		}
		start := time.Now()
		done := make(chan error, 1)
		go func() {
			switch ending {
			case "close":
				cctx, ccancel := context.WithCancel(context.Background())
				err := r.mgr.CloseDataTransferChannel(cctx, c.chid)
				if shortCtx {
					ccancel()
				}
				defer ccancel()
				done <- err
			case "close-with-error":
				done <- r.mgr.(closer).CloseDataTransferChannelWithError(bg(), c.chid, errors.New("monitor gave up"))
			case "incoming-cancel":
				if c.selfInit() {
					deliver(r, c.other, message.CancelResponse(c.chid.ID), cancelViaTransport)
				} else {
					deliver(r, c.other, message.CancelRequest(c.chid.ID), cancelViaTransport)
				}
				done <- nil
			case "rejecting-update":
				done <- r.mgr.UpdateValidationStatus(bg(), c.chid, datatransfer.ValidationResult{Accepted: false})
			}
		}()
		var err error
		select {
		case err = <-done:
		case <-time.After(watchdog):
			mfail(t, log, "C09/close-hang", "%s did not return within %s", ending, watchdog)
		}
		lat := time.Since(start)
		st2, ok := r.settle(c.chid)
		if !ok {
			mfail(t, log, "C09/no-settle", "channel did not settle after %s", ending)
		}
		// the asynchronous cancel send of CloseDataTransferChannel must be over before the logs are read
		deadline := time.Now().Add(watchdog)
		for ending == "close" && time.Now().Before(deadline) {
			found := false
			for _, s := range r.net.SentSince(sent0) {
				if s.Msg.IsCancel() {
					found = true
				}
			}
			if found {
				break
			}
			time.Sleep(50 * time.Microsecond)
		}
		r.net.SetSendErr(nil)
		r.net.SetSendDelay(0)
		r.syncAll()
		calls := r.tr.Since(tr0)
		want := datatransfer.Cancelled
		if ending == "close-with-error" || ending == "rejecting-update" {
			want = datatransfer.Failed
		}
		log = append(log, fmt.Sprintf("  -> err=%v latency=%s status=%s cleanups=%d", err, lat, datatransfer.Statuses[st2.Status()], countKind(calls, "cleanup", c.chid)))
		if st2.Status() != want {
			mfail(t, log, "C09/wrong-terminal", "%s ended in %s, want %s", ending, datatransfer.Statuses[st2.Status()], datatransfer.Statuses[want])
		}
		cl := countKind(calls, "cleanup", c.chid)
		minCl, maxCl := 1, 1
		if ending == "incoming-cancel" && !c.selfInit() {
			minCl, maxCl = 2, 2 // the responder releases the transport itself and then the cleanup does
		}
		if sendFails && ending == "close" {
			maxCl++ // the failed send reports a Disconnected notice that may race with the cleanup (DESIGN 6.1)
		}
		if cl < minCl || cl > maxCl {
			mfail(t, log, "C09/cleanup-count", "%d transport cleanup calls after %s, want %d..%d", cl, ending, minCl, maxCl)
		}
		unprot := 0
		for _, nc := range r.net.NetCalls() {
			if nc.Kind == "unprotect" && nc.Tag == c.chid.String() {
				unprot++
				if nc.Peer != c.other {
					mfail(t, log, "C09/unprotect-wrong-peer", "unprotected %s", gen.PeerName(nc.Peer))
				}
			}
		}
		if unprot < 1 {
			mfail(t, log, "C09/unprotect-count", "connection to the counterparty was not un-protected")
		}
		if ending == "close" || ending == "close-with-error" {
			cancels := 0
			for _, s := range r.net.SentSince(sent0) {
				if s.Msg.IsCancel() && s.Msg.TransferID() == c.chid.ID {
					cancels++
					if s.To != c.other {
						mfail(t, log, "C09/cancel-wrong-peer", "cancel sent to %s", gen.PeerName(s.To))
					}
					if s.Msg.IsRequest() != c.selfInit() {
						mfail(t, log, "C09/cancel-kind", "cancel message IsRequest=%v but local node initiated=%v", s.Msg.IsRequest(), c.selfInit())
					}
				}
			}
			if cancels != 1 {
				mfail(t, log, "C09/cancel-count", "%d cancel messages for one close", cancels)
			}
			if !sendFails {
				for _, s := range r.net.SentSince(sent0) {
					if s.Msg.IsCancel() && s.Err != nil {
						mfail(t, log, "C09/cancel-not-delivered", "the counterparty was not notified: the cancel send ended with %v", s.Err)
					}
				}
			}
			if countKind(calls, "close", c.chid) != 1 {
				mfail(t, log, "C09/transport-close", "%d transport close calls", countKind(calls, "close", c.chid))
			}
			if err != nil {
				mfail(t, log, "C09/close-error", "%s returned %v", ending, err)
			}
		}
		sp.Eval()
		fp := stats.FP("mgrx", c.role, ending, closeErr, sendFails)
		sp.Nontrivial(fp)
		sp.Sample(fp, map[string]any{"engine": "mgrx", "case": log})
		sp.Class("mgrx_ending_" + ending)
	})
}

// TestC01_KnownCrashAfterCompleteSent is the plain regression demonstration of the
// known finding C01/responder-crash-between-complete-send-and-record: the responder
// sends its final Complete and only then records it; a process that stops in
// between comes back with the channel still Ongoing although the initiator was told
// that the transfer is complete.
func TestC01_KnownCrashAfterCompleteSent(t *testing.T) {
	sp := stats.For("C01")
	reproduced := 0
	for _, role := range []string{"receivePush", "receivePull"} {
		ft := &plainT{t: t}
		r := newMgrRig(ft, gen.Peer(0), dbl.NewRecDatastore(), "T/a")
		v := datatransfer.TypedVoucher{Type: "T/a", Voucher: basicnode.NewString("v")}
		c, err := r.open(role, gen.Peer(1), 977, v, simpleCid(7), strNode("sel"), false)
		if err != nil {
			t.Fatalf("HARNESS open: %v", err)
		}
		r.toOngoing(c)
		_, _ = r.report(c, 1, 100, true)
		r.syncAll()
		sentComplete := false
		r.net.OnSend = func(s dbl.Sent) {
			if resp, ok := s.Msg.(datatransfer.Response); ok && !s.Msg.IsRequest() && resp.IsComplete() && !resp.IsPaused() && s.Err == nil && !sentComplete {
				sentComplete = true
				// the process dies here: the message is out, the Complete event is not recorded yet
				r.stop()
			}
		}
		_ = r.ev().OnChannelCompleted(c.chid, nil)
		r.net.OnSend = nil
		r.start([]datatransfer.TypeIdentifier{"T/a"})
		st, ok := r.settle(c.chid)
		status := "missing"
		if st != nil {
			status = datatransfer.Statuses[st.Status()]
		}
		if sentComplete && (!ok || st == nil || st.Status() != datatransfer.Completed) {
			reproduced++
			fmt.Printf("KNOWN-FINDING-REPRODUCED C01/responder-crash-between-complete-send-and-record: %s responder sent its final Complete, the process was replaced before the event was recorded, the channel is %s after restart\n", role, status)
		}
		r.stop()
	}
	sp.ClassN("known_finding_reproduced_crash_after_complete_sent", reproduced)
}

// plainT adapts *testing.T to the rig's fataler.
type plainT struct{ t *testing.T }

func (p *plainT) Fatalf(f string, a ...any) { p.t.Fatalf(f, a...) }
func (p *plainT) Helper()                   {}
