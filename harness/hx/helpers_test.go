package hx

import (
	ipld "github.com/ipld/go-ipld-prime"
	cidlink "github.com/ipld/go-ipld-prime/linking/cid"
	"os"

	"github.com/ipfs/go-cid"
	"github.com/ipld/go-ipld-prime/datamodel"
	"github.com/ipld/go-ipld-prime/node/basicnode"
	"github.com/libp2p/go-libp2p/core/peer"

	datatransfer "github.com/filecoin-project/go-data-transfer/v2"

	"verif/harness/gen"
)

func genPeer(i int) peer.ID           { return gen.Peer(i) }
func simpleCid(i int) cid.Cid         { return gen.CidOf([]byte{byte(i)}) }
func strNode(s string) datamodel.Node { return basicnode.NewString(s) }
func smallVoucher(typ, v string) datatransfer.TypedVoucher {
	return datatransfer.TypedVoucher{Type: datatransfer.TypeIdentifier(typ), Voucher: basicnode.NewString(v)}
}

func tier() string {
	if v := os.Getenv("VERIF_TIER"); v != "" {
		return v
	}
	return "quick"
}

type cidT = cid.Cid

func cidLinkSystem() ipld.LinkSystem { return cidlink.DefaultLinkSystem() }
