package hx

import (
	"fmt"

	"github.com/ipld/go-ipld-prime/node/basicnode"
	"pgregory.net/rapid"

	datatransfer "github.com/filecoin-project/go-data-transfer/v2"

	"verif/harness/gen"
)

var emptyVoucherStr = gen.VoucherStr(datatransfer.TypedVoucher{})

func gen0(s chanSpec) string                        { return gen.VoucherStr(s.Voucher) }
func fmtVoucher(v datatransfer.TypedVoucher) string { return gen.VoucherStr(v) }

// drawSpec draws a channel description. rich selects arbitrary IPLD values.
func drawSpec(t *rapid.T, i int, rich bool) chanSpec {
	s := chanSpec{
		SelfInitiator: rapid.Bool().Draw(t, fmt.Sprintf("c%d.selfInitiator", i)),
		Pull:          rapid.Bool().Draw(t, fmt.Sprintf("c%d.pull", i)),
		Other:         gen.Peer(rapid.IntRange(1, 3).Draw(t, fmt.Sprintf("c%d.other", i))),
		TID:           datatransfer.TransferID(1000*uint64(i+1) + uint64(rapid.IntRange(0, 5).Draw(t, fmt.Sprintf("c%d.tid", i)))),
	}
	if rich {
		s.Base = gen.Cid().Draw(t, "base")
		s.Selector = gen.Node(gen.NodeOpts{}).Draw(t, "selector")
		s.Voucher = gen.Voucher(gen.NodeOpts{}).Draw(t, "voucher")
	} else {
		s.Base = gen.SimpleCid().Draw(t, "base")
		s.Selector = basicnode.NewString("sel")
		s.Voucher = gen.SmallVoucher().Draw(t, "voucher")
	}
	return s
}

type weighted struct {
	kind string
	w    int
}

func pick(t *rapid.T, ws []weighted, label string) string {
	total := 0
	for _, w := range ws {
		total += w.w
	}
	x := rapid.IntRange(0, total-1).Draw(t, label)
	for _, w := range ws {
		if x < w.w {
			return w.kind
		}
		x -= w.w
	}
	return ws[len(ws)-1].kind
}

// dataKinds returns the report kinds that the local side of the channel produces.
func dataKinds(s chanSpec) []string {
	_, _, snd, _ := s.parties(gen.Peer(0))
	if snd == gen.Peer(0) {
		return []string{"DataQueued", "DataSent"}
	}
	return []string{"DataReceived"}
}

var noticeKinds = []string{"Disconnected", "SendDataError", "ReceiveDataError", "RequestCancelled"}

// fill draws the arguments for an action kind.
func fill(t *rapid.T, a Act, nextIdx *int64) Act {
	switch a.Kind {
	case "DataQueued", "DataSent", "DataReceived":
		if rapid.IntRange(0, 3).Draw(t, "replay") == 0 && *nextIdx > 1 {
			a.Index = int64(rapid.IntRange(1, int(*nextIdx)).Draw(t, "idx"))
		} else {
			*nextIdx++
			a.Index = *nextIdx
		}
		a.Delta = uint64(rapid.IntRange(0, 5000).Draw(t, "size"))
		a.Unique = rapid.IntRange(0, 4).Draw(t, "uniq") != 0
	case "SetDataLimit":
		a.Limit = uint64(rapid.IntRange(0, 20000).Draw(t, "limit"))
	case "SetRequiresFinalization":
		a.Flag = rapid.Bool().Draw(t, "flag")
	case "NewVoucher", "NewVoucherResult":
		a.V = gen.SmallVoucher().Draw(t, "v")
	case "Error", "Disconnected", "RequestCancelled", "SendDataError", "ReceiveDataError":
		a.Msg = rapid.StringMatching("[a-z ]{0,12}").Draw(t, "msg")
	}
	return a
}

// lifeAlphabet is the role-consistent alphabet of C03.
func lifeAlphabet(s chanSpec, finalizing bool) []weighted {
	var ws []weighted
	for _, k := range dataKinds(s) {
		ws = append(ws, weighted{k, 3})
	}
	for _, k := range noticeKinds {
		ws = append(ws, weighted{k, 1})
	}
	ws = append(ws,
		weighted{"PauseInitiator", 1}, weighted{"ResumeInitiator", 1}, weighted{"PauseResponder", 1},
		weighted{"NewVoucher", 1}, weighted{"NewVoucherResult", 1}, weighted{"Restart", 1},
		weighted{"Cancel", 1}, weighted{"Error", 1})
	if finalizing {
		ws = append(ws, weighted{"ResumeResponder", 3}, weighted{"SetDataLimit", 1})
		return ws
	}
	ws = append(ws, weighted{"Accept", 4}, weighted{"TransferInitiated", 4}, weighted{"ResumeResponder", 1})
	if s.SelfInitiator {
		ws = append(ws, weighted{"Opened", 1},
			weighted{"FinishTransfer", 6}, weighted{"ResponderCompletes", 6}, weighted{"ResponderBeginsFinalization", 4})
	} else {
		ws = append(ws, weighted{"SetDataLimit", 1}, weighted{"SetRequiresFinalization", 1},
			weighted{"BeginFinalizing", 4}, weighted{"Complete", 3})
	}
	return ws
}

// allKinds is every public event method (C02 stimuli, C06 histories).
var allKinds = []string{
	"Open", "Accept", "Opened", "TransferInitiated", "Restart", "CompleteCleanupOnRestart",
	"DataSent", "DataQueued", "DataReceived",
	"PauseInitiator", "PauseResponder", "ResumeInitiator", "ResumeResponder",
	"NewVoucher", "NewVoucherResult", "Complete", "FinishTransfer", "ResponderCompletes",
	"ResponderBeginsFinalization", "BeginFinalizing", "Cancel", "Error",
	"Disconnected", "RequestCancelled", "SendDataError", "ReceiveDataError",
	"SetDataLimit", "SetRequiresFinalization",
}

// reach drives a fresh channel to a generated status along a valid path and
// returns the name of the path.
func reach(t *rapid.T, h *hist, ch int) string {
	c := h.chans[ch]
	paths := [][]string{
		{},                              // Requested (after Open)
		{"Accept"},                      // Queued
		{"TransferInitiated"},           // AwaitingAcceptance
		{"Accept", "TransferInitiated"}, // Ongoing
		{"TransferInitiated", "Accept"}, // Ongoing
	}
	if c.spec.SelfInitiator {
		paths = append(paths,
			[]string{"Accept", "TransferInitiated", "FinishTransfer"},                                // TransferFinished
			[]string{"Accept", "TransferInitiated", "ResponderCompletes"},                            // ResponderCompleted
			[]string{"Accept", "TransferInitiated", "ResponderBeginsFinalization"},                   // ResponderFinalizing
			[]string{"Accept", "TransferInitiated", "FinishTransfer", "ResponderBeginsFinalization"}, // ResponderFinalizingTransferFinished
		)
	} else {
		paths = append(paths,
			[]string{"Accept", "TransferInitiated", "BeginFinalizing"}, // Finalizing
		)
	}
	p := paths[rapid.IntRange(0, len(paths)-1).Draw(t, "reachPath")]
	h.do(Act{Kind: "Open", Ch: ch})
	for _, k := range p {
		h.do(Act{Kind: k, Ch: ch})
	}
	return fmt.Sprint(p)
}
