package hx

import (
	"bytes"
	"fmt"

	"github.com/ipld/go-ipld-prime/codec/dagcbor"
	"github.com/ipld/go-ipld-prime/datamodel"
	"github.com/ipld/go-ipld-prime/node/basicnode"
)

// rec is an independent reading of a persisted version-3 channel record: the
// bytes are decoded as generic DAG-CBOR (no go-data-transfer code involved).
type rec struct {
	Status          int64
	Queued          int64
	Sent            int64
	Received        int64
	QueuedIdx       int64
	SentIdx         int64
	ReceivedIdx     int64
	DataLimit       int64
	ReqFinal        bool
	InitPaused      bool
	RespPaused      bool
	Message         string
	NVouchers       int64
	NResults        int64
	TransferID      int64
	StageLogEntries int64
}

func decodeRecord(b []byte) (rec, error) {
	var r rec
	nb := basicnode.Prototype.Any.NewBuilder()
	if err := (dagcbor.DecodeOptions{AllowLinks: true}).Decode(nb, bytes.NewReader(b)); err != nil {
		return r, err
	}
	n := nb.Build()
	if n.Kind() != datamodel.Kind_Map {
		return r, fmt.Errorf("record is a %s", n.Kind())
	}
	geti := func(k string) int64 {
		v, err := n.LookupByString(k)
		if err != nil {
			return -1
		}
		i, _ := v.AsInt()
		return i
	}
	getb := func(k string) bool {
		v, err := n.LookupByString(k)
		if err != nil {
			return false
		}
		b, _ := v.AsBool()
		return b
	}
	getl := func(k string) int64 {
		v, err := n.LookupByString(k)
		if err != nil || v.Kind() != datamodel.Kind_List {
			return 0
		}
		return v.Length()
	}
	r.Status = geti("Status")
	r.Queued = geti("Queued")
	r.Sent = geti("Sent")
	r.Received = geti("Received")
	r.QueuedIdx = geti("QueuedBlocksTotal")
	r.SentIdx = geti("SentBlocksTotal")
	r.ReceivedIdx = geti("ReceivedBlocksTotal")
	r.DataLimit = geti("DataLimit")
	r.TransferID = geti("TransferID")
	r.ReqFinal = getb("RequiresFinalization")
	r.InitPaused = getb("InitiatorPaused")
	r.RespPaused = getb("ResponderPaused")
	r.NVouchers = getl("Vouchers")
	r.NResults = getl("VoucherResults")
	if v, err := n.LookupByString("Message"); err == nil {
		r.Message, _ = v.AsString()
	}
	return r, nil
}

// recOfVec projects an accessor vector onto the independently decoded fields.
func recOfVec(v Vec) rec {
	r := rec{Status: int64(v.Status), Queued: int64(v.Queued), Sent: int64(v.Sent), Received: int64(v.Received),
		QueuedIdx: v.QueuedIdx, SentIdx: v.SentIdx, ReceivedIdx: v.ReceivedIdx, DataLimit: int64(v.DataLimit),
		ReqFinal: v.ReqFinal, InitPaused: v.InitPaused, Message: v.Message,
		NVouchers: int64(len(v.Vouchers)), NResults: int64(len(v.Results)), TransferID: int64(v.TransferID)}
	return r
}

// sameRec compares a decoded record with a snapshot (the raw responder flag is
// only comparable outside Finalizing, where the accessor adds the status).
func sameRec(r rec, v Vec) bool {
	w := recOfVec(v)
	r2 := r
	r2.RespPaused = false
	if r2 != w {
		return false
	}
	if int64(v.Status) != 4 /* Finalizing */ && r.RespPaused != v.RespPaused {
		return false
	}
	return true
}
