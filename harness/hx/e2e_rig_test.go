package hx

import (
	"bytes"
	"context"
	"fmt"
	"io"
	"sync"
	"time"

	"github.com/ipfs/go-cid"
	"github.com/ipfs/go-graphsync"
	gsimpl "github.com/ipfs/go-graphsync/impl"
	gsnet "github.com/ipfs/go-graphsync/network"
	ipld "github.com/ipld/go-ipld-prime"
	"github.com/ipld/go-ipld-prime/codec/dagcbor"
	_ "github.com/ipld/go-ipld-prime/codec/raw"
	"github.com/ipld/go-ipld-prime/datamodel"
	"github.com/ipld/go-ipld-prime/fluent/qp"
	"github.com/ipld/go-ipld-prime/linking"
	cidlink "github.com/ipld/go-ipld-prime/linking/cid"
	"github.com/ipld/go-ipld-prime/node/basicnode"
	"github.com/ipld/go-ipld-prime/traversal"
	"github.com/ipld/go-ipld-prime/traversal/selector"
	"github.com/ipld/go-ipld-prime/traversal/selector/builder"
	"github.com/libp2p/go-libp2p/core/host"
	"github.com/libp2p/go-libp2p/core/peer"
	mocknet "github.com/libp2p/go-libp2p/p2p/net/mock"
	mh "github.com/multiformats/go-multihash"
	"pgregory.net/rapid"

	datatransfer "github.com/filecoin-project/go-data-transfer/v2"
	dtimpl "github.com/filecoin-project/go-data-transfer/v2/impl"
	dtnet "github.com/filecoin-project/go-data-transfer/v2/network"
	gstransport "github.com/filecoin-project/go-data-transfer/v2/transport/graphsync"

	"verif/harness/dbl"
)

// memStore is a thread-safe in-memory block store with a load log.
type memStore struct {
	mu     sync.Mutex
	blocks map[cid.Cid][]byte
	loads  []cid.Cid
}

func newMemStore() *memStore { return &memStore{blocks: map[cid.Cid][]byte{}} }

func (s *memStore) get(c cid.Cid) ([]byte, bool) {
	s.mu.Lock()
	defer s.mu.Unlock()
	b, ok := s.blocks[c]
	return b, ok
}

func (s *memStore) put(c cid.Cid, b []byte) {
	s.mu.Lock()
	defer s.mu.Unlock()
	s.blocks[c] = append([]byte{}, b...)
}

func (s *memStore) len() int {
	s.mu.Lock()
	defer s.mu.Unlock()
	return len(s.blocks)
}

func (s *memStore) linkSystem(recordLoads bool) ipld.LinkSystem {
	lsys := cidlink.DefaultLinkSystem()
	lsys.TrustedStorage = true
	lsys.StorageReadOpener = func(_ linking.LinkContext, lnk datamodel.Link) (io.Reader, error) {
		c := lnk.(cidlink.Link).Cid
		b, ok := s.get(c)
		if !ok {
			return nil, fmt.Errorf("block %s not found", c)
		}
		if recordLoads {
			s.mu.Lock()
			s.loads = append(s.loads, c)
			s.mu.Unlock()
		}
		return bytes.NewReader(b), nil
	}
	lsys.StorageWriteOpener = func(_ linking.LinkContext) (io.Writer, linking.BlockWriteCommitter, error) {
		var buf bytes.Buffer
		return &buf, func(lnk datamodel.Link) error {
			s.put(lnk.(cidlink.Link).Cid, buf.Bytes())
			return nil
		}, nil
	}
	return lsys
}

// ---------------------------------------------------------------------------
// payload DAGs

var dagCborProto = cidlink.LinkPrototype{Prefix: cid.Prefix{Version: 1, Codec: cid.DagCBOR, MhType: mh.SHA2_256, MhLength: 32}}
var rawProto = cidlink.LinkPrototype{Prefix: cid.Prefix{Version: 1, Codec: cid.Raw, MhType: mh.SHA2_256, MhLength: 32}}

type payload struct {
	root   cid.Cid
	blocks int
	depth  int
	dups   bool
}

// drawPayload builds a DAG of dag-cbor and raw blocks in the store and returns its root.
func drawPayload(t *rapid.T, s *memStore, allowDups bool) payload {
	lsys := s.linkSystem(false)
	var built []datamodel.Link
	p := payload{}
	var mk func(depth int) datamodel.Link
	mk = func(depth int) datamodel.Link {
		if allowDups && len(built) > 0 && rapid.IntRange(0, 9).Draw(t, "reuse") < 3 {
			p.dups = true
			return built[rapid.IntRange(0, len(built)-1).Draw(t, "reuseWhich")]
		}
		data := rapid.SliceOfN(rapid.Byte(), 0, 2048).Draw(t, "data")
		// make every generated block distinct unless deliberately reused
		data = append(data, byte(len(built)), byte(len(built)>>8), 0xA5)
		var l datamodel.Link
		var err error
		if depth == 0 || rapid.IntRange(0, 3).Draw(t, "leaf") == 0 {
			if rapid.Bool().Draw(t, "raw") {
				l, err = lsys.Store(linking.LinkContext{}, rawProto, basicnode.NewBytes(data))
			} else {
				n, _ := qp.BuildMap(basicnode.Prototype.Map, 1, func(ma datamodel.MapAssembler) {
					qp.MapEntry(ma, "data", qp.Bytes(data))
				})
				l, err = lsys.Store(linking.LinkContext{}, dagCborProto, n)
			}
		} else {
			nkids := rapid.IntRange(1, 4).Draw(t, "kids")
			kids := make([]datamodel.Link, nkids)
			for i := range kids {
				kids[i] = mk(depth - 1)
			}
			n, _ := qp.BuildMap(basicnode.Prototype.Map, 2, func(ma datamodel.MapAssembler) {
				qp.MapEntry(ma, "data", qp.Bytes(data))
				qp.MapEntry(ma, "links", qp.List(int64(nkids), func(la datamodel.ListAssembler) {
					for _, k := range kids {
						qp.ListEntry(la, qp.Link(k))
					}
				}))
			})
			l, err = lsys.Store(linking.LinkContext{}, dagCborProto, n)
		}
		if err != nil {
			panic(err)
		}
		built = append(built, l)
		return l
	}
	p.depth = rapid.IntRange(1, 3).Draw(t, "depth")
	root := mk(p.depth)
	p.root = root.(cidlink.Link).Cid
	p.blocks = s.len()
	return p
}

func selectorAll() datamodel.Node {
	ssb := builder.NewSelectorSpecBuilder(basicnode.Prototype.Any)
	return ssb.ExploreRecursive(selector.RecursionLimitNone(), ssb.ExploreAll(ssb.ExploreRecursiveEdge())).Node()
}

func selectorDepth(d int64) datamodel.Node {
	ssb := builder.NewSelectorSpecBuilder(basicnode.Prototype.Any)
	return ssb.ExploreRecursive(selector.RecursionLimitDepth(d), ssb.ExploreAll(ssb.ExploreRecursiveEdge())).Node()
}

// walk traverses root with the selector over the store (go-ipld-prime only) and
// returns the blocks in traversal order (with repeats).
func walk(s *memStore, root cid.Cid, sel datamodel.Node) ([]cid.Cid, error) {
	w := &memStore{blocks: s.blocks}
	s.mu.Lock()
	// share the map read-only under the source's lock discipline: copy instead
	w.blocks = make(map[cid.Cid][]byte, len(s.blocks))
	for k, v := range s.blocks {
		w.blocks[k] = v
	}
	s.mu.Unlock()
	lsys := w.linkSystem(true)
	parsed, err := selector.ParseSelector(sel)
	if err != nil {
		return nil, err
	}
	proto := basicnode.Prototype.Any
	nd, err := lsys.Load(linking.LinkContext{}, cidlink.Link{Cid: root}, proto)
	if err != nil {
		return nil, err
	}
	prog := traversal.Progress{Cfg: &traversal.Config{LinkSystem: lsys, LinkTargetNodePrototypeChooser: func(datamodel.Link, linking.LinkContext) (datamodel.NodePrototype, error) {
		return proto, nil
	}}}
	if err := prog.WalkAdv(nd, parsed, func(traversal.Progress, datamodel.Node, traversal.VisitReason) error { return nil }); err != nil {
		return nil, err
	}
	return w.loads, nil
}

// ---------------------------------------------------------------------------
// nodes

type e2eEvent struct {
	seq    int64
	code   datatransfer.EventCode
	status datatransfer.Status
	vec    Vec
}

type e2eNode struct {
	name   string
	host   host.Host
	ds     *dbl.RecDatastore
	store  *memStore
	lsys   ipld.LinkSystem
	gs     graphsync.GraphExchange
	gsStop context.CancelFunc
	net    dtnet.DataTransferNetwork
	tr     *gstransport.Transport
	mgr    datatransfer.Manager
	val    *dbl.Validator
	sent   *sentLog
	// sent logs of earlier manager lifetimes of this node
	oldSent []*sentLog

	// configurer, if set, is registered for the voucher type on every manager lifetime
	configurer datatransfer.TransportConfigurer

	// lifeMu serialises manager lifetimes: a manager is stopped once, and no new
	// lifetime starts once the world is closing
	lifeMu  sync.Mutex
	stopped bool
	closing bool

	mu     sync.Mutex
	events map[datatransfer.ChannelID][]e2eEvent
	cond   *sync.Cond
	hooks  []func(datatransfer.Event, datatransfer.ChannelState)
}

// sentLog wraps the real network to record what the node sends.
type sentLog struct {
	dtnet.DataTransferNetwork
	mu   sync.Mutex
	msgs []dbl.Sent
}

func (s *sentLog) SendMessage(ctx context.Context, p peer.ID, m datatransfer.Message) error {
	err := s.DataTransferNetwork.SendMessage(ctx, p, m)
	s.mu.Lock()
	s.msgs = append(s.msgs, dbl.Sent{Seq: dbl.NextSeq(), To: p, Msg: m, Err: err})
	s.mu.Unlock()
	return err
}

func (s *sentLog) snapshot() []dbl.Sent {
	s.mu.Lock()
	defer s.mu.Unlock()
	return append([]dbl.Sent{}, s.msgs...)
}

const e2eType = datatransfer.TypeIdentifier("T/e2e")

func newE2ENode(t fataler, ctx context.Context, name string, h host.Host, ds *dbl.RecDatastore, store *memStore, val *dbl.Validator) *e2eNode {
	n := &e2eNode{name: name, host: h, ds: ds, store: store, val: val, events: map[datatransfer.ChannelID][]e2eEvent{}}
	n.cond = sync.NewCond(&n.mu)
	n.lsys = store.linkSystem(false)
	n.start(t, ctx)
	return n
}

func (n *e2eNode) start(t fataler, ctx context.Context) {
	gsCtx, cancel := context.WithCancel(ctx)
	n.gsStop = cancel
	n.gs = gsimpl.New(gsCtx, gsnet.NewFromLibp2pHost(n.host), n.lsys)
	if n.sent != nil {
		n.oldSent = append(n.oldSent, n.sent)
	}
	n.sent = &sentLog{DataTransferNetwork: dtnet.NewFromLibp2pHost(n.host, dtnet.RetryParameters(0, 0, 0, 0))}
	n.net = n.sent
	n.tr = gstransport.NewTransport(n.host.ID(), n.gs)
	mgr, err := dtimpl.NewDataTransfer(n.ds, n.net, n.tr)
	if err != nil {
		t.Fatalf("HARNESS NewDataTransfer: %v", err)
	}
	n.mgr = mgr
	if err := mgr.RegisterVoucherType(e2eType, n.val); err != nil {
		t.Fatalf("HARNESS register: %v", err)
	}
	if n.configurer != nil {
		if err := mgr.RegisterTransportConfigurer(e2eType, n.configurer); err != nil {
			t.Fatalf("HARNESS register configurer: %v", err)
		}
	}
	ready := make(chan error, 1)
	mgr.OnReady(func(err error) { ready <- err })
	mgr.SubscribeToEvents(n.onEvent)
	if err := mgr.Start(ctx); err != nil {
		t.Fatalf("HARNESS start: %v", err)
	}
	select {
	case err := <-ready:
		if err != nil {
			t.Fatalf("HARNESS ready: %v", err)
		}
	case <-time.After(watchdog):
		t.Fatalf("HARNESS manager not ready")
	}
}

// restartProcess stops the manager and graphsync and starts new ones on the same stores.
func (n *e2eNode) restartProcess(t fataler, ctx context.Context) {
	n.restartProcessWith(t, ctx, nil)
}

// restartProcessWith calls between (if not nil) when the old process is gone and the new one does not exist yet.
func (n *e2eNode) restartProcessWith(t fataler, ctx context.Context, between func()) {
	n.lifeMu.Lock()
	defer n.lifeMu.Unlock()
	if n.closing {
		return
	}
	n.stopLocked()
	if between != nil {
		between()
	}
	n.start(t, ctx)
	n.stopped = false
}

// completeSentInEarlierLifetime reports whether an earlier manager lifetime of this node sent an un-paused Complete.
func (n *e2eNode) completeSentInEarlierLifetime(to peer.ID, tid datatransfer.TransferID) bool {
	for _, l := range n.oldSent {
		for _, s := range l.snapshot() {
			if resp, ok := s.Msg.(datatransfer.Response); ok && !s.Msg.IsRequest() && resp.IsComplete() && !resp.IsPaused() && s.To == to && s.Msg.TransferID() == tid && s.Err == nil {
				return true
			}
		}
	}
	return false
}

// stop ends the node for good (world teardown).
func (n *e2eNode) stop() {
	n.lifeMu.Lock()
	defer n.lifeMu.Unlock()
	n.closing = true
	n.stopLocked()
}

func (n *e2eNode) stopLocked() {
	if n.stopped {
		return
	}
	n.stopped = true
	ctx, cancel := context.WithTimeout(context.Background(), 5*time.Second)
	defer cancel()
	_ = n.mgr.Stop(ctx)
	n.gsStop()
}

func (n *e2eNode) onEvent(evt datatransfer.Event, st datatransfer.ChannelState) {
	v, _ := vecOf(st)
	n.mu.Lock()
	n.events[v.ChannelID] = append(n.events[v.ChannelID], e2eEvent{seq: dbl.NextSeq(), code: evt.Code, status: v.Status, vec: v})
	hooks := append([]func(datatransfer.Event, datatransfer.ChannelState){}, n.hooks...)
	n.cond.Broadcast()
	n.mu.Unlock()
	for _, h := range hooks {
		h(evt, st)
	}
}

func (n *e2eNode) eventsOf(chid datatransfer.ChannelID) []e2eEvent {
	n.mu.Lock()
	defer n.mu.Unlock()
	return append([]e2eEvent{}, n.events[chid]...)
}

// waitFor blocks until pred holds on the channel's event list or the deadline passes.
func (n *e2eNode) waitFor(chid datatransfer.ChannelID, d time.Duration, pred func([]e2eEvent) bool) bool {
	deadline := time.Now().Add(d)
	timer := time.AfterFunc(d, func() { n.mu.Lock(); n.cond.Broadcast(); n.mu.Unlock() })
	defer timer.Stop()
	n.mu.Lock()
	defer n.mu.Unlock()
	for !pred(n.events[chid]) {
		if time.Now().After(deadline) {
			return false
		}
		n.cond.Wait()
	}
	return true
}

type e2eWorld struct {
	ctx    context.Context
	cancel context.CancelFunc
	mn     mocknet.Mocknet
	a, b   *e2eNode // a = initiator, b = responder
}

func newE2EWorld(t fataler) *e2eWorld {
	ctx, cancel := context.WithCancel(context.Background())
	w := &e2eWorld{ctx: ctx, cancel: cancel, mn: mocknet.New()}
	ha, err := w.mn.GenPeer()
	if err != nil {
		t.Fatalf("HARNESS GenPeer: %v", err)
	}
	hb, err := w.mn.GenPeer()
	if err != nil {
		t.Fatalf("HARNESS GenPeer: %v", err)
	}
	if err := w.mn.LinkAll(); err != nil {
		t.Fatalf("HARNESS LinkAll: %v", err)
	}
	w.a = newE2ENode(t, ctx, "initiator", ha, dbl.NewRecDatastore(), newMemStore(), dbl.NewValidator(e2eType))
	w.b = newE2ENode(t, ctx, "responder", hb, dbl.NewRecDatastore(), newMemStore(), dbl.NewValidator(e2eType))
	return w
}

func (w *e2eWorld) close() {
	w.a.stop()
	w.b.stop()
	w.cancel()
	_ = w.mn.Close()
}

func nodeEnc(n datamodel.Node) []byte {
	var b bytes.Buffer
	_ = dagcbor.Encode(n, &b)
	return b.Bytes()
}
