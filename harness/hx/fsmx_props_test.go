package hx

import (
	"fmt"
	"strings"
	"testing"

	"pgregory.net/rapid"

	datatransfer "github.com/filecoin-project/go-data-transfer/v2"

	"verif/harness/stats"
)

// ---------------------------------------------------------------------------
// C11

func TestC11_Fsmx(t *testing.T) {
	sp := stats.For("C11")
	sp.SetRule("fsmx: one channel (both roles), driven to a generated status, then 1..30 actions from {PauseInitiator, ResumeInitiator, PauseResponder, ResumeResponder, data-limit pause, reopen} mixed with a few lifecycle events; two-flag reference model updated by applied events only. mgrx: local pause/resume, counterparty updates over both paths. Non-trivial: both parties' flags acted on at least once; distinct by (role, direction, status at first pause action, applied-action pattern)")
	rapid.Check(t, func(t *rapid.T) {
		spec := drawSpec(t, 0, false)
		pm := newOPause()
		h := newHist(t, []chanSpec{spec}, oFrame{}, pm, oMono{})
		defer h.close()
		path := reach(t, h, 0)
		n := rapid.IntRange(1, 30).Draw(t, "n")
		var nextIdx int64
		var pattern []string
		firstStatus := ""
		for i := 0; i < n && !isTerminal(h.chans[0].last.Status); i++ {
			ws := []weighted{{"PauseInitiator", 5}, {"ResumeInitiator", 5}, {"PauseResponder", 5}, {"ResumeResponder", 5}, {"limitHit", 2}, {"reopen", 1},
				{"Accept", 1}, {"TransferInitiated", 1}, {"NewVoucher", 1}, {"Disconnected", 1}}
			if spec.SelfInitiator {
				ws = append(ws, weighted{"FinishTransfer", 1}, weighted{"ResponderCompletes", 1}, weighted{"ResponderBeginsFinalization", 1})
			} else {
				ws = append(ws, weighted{"BeginFinalizing", 1})
			}
			k := pick(t, ws, "kind")
			if firstStatus == "" && isPauseKind(k) {
				firstStatus = datatransfer.Statuses[h.chans[0].last.Status]
			}
			switch k {
			case "reopen":
				h.doReopen()
			case "limitHit":
				if spec.SelfInitiator {
					continue
				}
				h.do(Act{Kind: "SetDataLimit", Limit: 1})
				nextIdx++
				h.do(Act{Kind: limitedKind(spec.Pull), Index: nextIdx, Delta: 10, Unique: true})
			default:
				s := h.do(fill(t, Act{Kind: k}, &nextIdx))
				if len(s.entries) > 0 {
					pattern = append(pattern, k)
				} else {
					pattern = append(pattern, "!"+k)
				}
			}
		}
		sp.Eval()
		if pm.initActed[0] && pm.respActed[0] {
			fp := stats.FP(spec.SelfInitiator, spec.Pull, firstStatus, strings.Join(pattern, ","))
			sp.Nontrivial(fp)
			sp.Sample(fp, map[string]any{"engine": "fsmx", "channel": spec.String(), "reached_by": path, "history": h.log})
			sp.Class("both_parties_acted")
		}
		if pm.ignoredSeen > 0 {
			sp.Class("has_ignored_pause_action")
		}
		if h.reopens > 0 {
			sp.Class("with_reopen")
		}
		sp.Class("start_" + firstStatus)
	})
}

// ---------------------------------------------------------------------------
// C02

// drawEnding applies a generated ending to channel ch and returns its name.
func drawEnding(t *rapid.T, h *hist, ch int) string {
	spec := h.chans[ch].spec
	kinds := []string{"Cancel", "Error", "complete"}
	k := rapid.SampledFrom(kinds).Draw(t, "ending")
	switch k {
	case "Cancel":
		h.do(Act{Kind: "Cancel", Ch: ch})
	case "Error":
		h.do(Act{Kind: "Error", Ch: ch, Msg: "boom"})
	default:
		if spec.SelfInitiator {
			if rapid.Bool().Draw(t, "finishFirst") {
				h.do(Act{Kind: "FinishTransfer", Ch: ch})
				h.do(Act{Kind: "ResponderCompletes", Ch: ch})
			} else {
				h.do(Act{Kind: "ResponderCompletes", Ch: ch})
				h.do(Act{Kind: "FinishTransfer", Ch: ch})
			}
		} else {
			if rapid.Bool().Draw(t, "viaFinalizing") {
				h.do(Act{Kind: "BeginFinalizing", Ch: ch})
				h.do(Act{Kind: "ResumeResponder", Ch: ch})
			} else {
				h.do(Act{Kind: "Complete", Ch: ch})
			}
		}
	}
	return k
}

func TestC02_Fsmx(t *testing.T) {
	sp := stats.For("C02")
	sp.SetRule("fsmx: channel driven to a generated status, ended by Cancel / Error / completion, settled; then up to 20 stimuli drawn from all 28 public event methods (random arguments), queries and reopen; after each: accessors, persisted bytes and publication count must equal the snapshot taken at termination. mgrx: every API call, message kind and transport callback against terminated channels, with process restart. Non-trivial: at least one non-query stimulus after termination; distinct by (terminal status, role, set of stimulus kinds, reopened)")
	rapid.Check(t, func(t *rapid.T) {
		spec := drawSpec(t, 0, false)
		of := newOFinal()
		h := newHist(t, []chanSpec{spec}, of, oMono{})
		defer h.close()
		reach(t, h, 0)
		var nextIdx int64
		for i := rapid.IntRange(0, 4).Draw(t, "pre"); i > 0 && !isTerminal(h.chans[0].last.Status); i-- {
			h.do(fill(t, Act{Kind: pick(t, lifeAlphabet(spec, false), "prekind")}, &nextIdx))
		}
		if !isTerminal(h.chans[0].last.Status) {
			drawEnding(t, h, 0)
		}
		c := h.chans[0]
		if !c.final {
			// e.g. responder in Finalizing that was cancelled before: always terminal here
			h.fail("C09/no-settle", "channel not terminal after ending: %s", c.last.Short())
		}
		n := rapid.IntRange(1, 20).Draw(t, "n")
		for i := 0; i < n; i++ {
			if rapid.IntRange(0, 9).Draw(t, "reopen?") == 0 {
				h.doReopen()
				continue
			}
			k := rapid.SampledFrom(allKinds).Draw(t, "stimulus")
			h.do(fill(t, Act{Kind: k}, &nextIdx))
		}
		of.checkListed(h)
		sp.Eval()
		if of.count > 0 {
			kinds := make([]string, 0, len(of.stimuli))
			for _, k := range allKinds {
				if of.stimuli[k] {
					kinds = append(kinds, k)
				}
			}
			fp := stats.FP(c.finalVec.Status, spec.SelfInitiator, strings.Join(kinds, ","), h.reopens > 0)
			sp.Nontrivial(fp)
			sp.Sample(fp, map[string]any{"engine": "fsmx", "channel": spec.String(), "history": h.log})
			sp.Class("terminal_" + datatransfer.Statuses[c.finalVec.Status])
			if h.reopens > 0 {
				sp.Class("with_reopen")
			}
		}
	})
}

// TestC02_FsmxTable enumerates terminal status x every public event method x {same process, after reopen} once.
func TestC02_FsmxTable(t *testing.T) {
	sp := stats.For("C02")
	type ending struct {
		name  string
		acts  []string
		initr bool
	}
	endings := []ending{
		{"Cancelled", []string{"Cancel"}, true}, {"Failed", []string{"Error"}, true}, {"Completed", []string{"FinishTransfer", "ResponderCompletes"}, true},
		{"Cancelled", []string{"Cancel"}, false}, {"Failed", []string{"Error"}, false}, {"Completed", []string{"Complete"}, false},
	}
	rapid.Check(t, func(t *rapid.T) {
		// the table is enumerated completely inside one property evaluation
		for _, e := range endings {
			for _, reopen := range []bool{false, true} {
				spec := chanSpec{SelfInitiator: e.initr, Pull: rapid.Bool().Draw(t, "pull"), Other: genPeer(1), TID: 77, Base: simpleCid(3), Selector: strNode("sel"), Voucher: smallVoucher("T/a", "v")}
				of := newOFinal()
				h := newHist(t, []chanSpec{spec}, of)
				h.do(Act{Kind: "Open"})
				h.do(Act{Kind: "Accept"})
				h.do(Act{Kind: "TransferInitiated"})
				for _, k := range e.acts {
					h.do(Act{Kind: k, Msg: "x"})
				}
				if !h.chans[0].final || datatransfer.Statuses[h.chans[0].finalVec.Status] != e.name {
					h.fail("C09/no-settle", "expected %s, got %s", e.name, h.chans[0].last.Short())
				}
				if reopen {
					h.doReopen()
				}
				var idx int64 = 3
				for _, k := range allKinds {
					idx++
					h.do(Act{Kind: k, Index: idx, Delta: 10, Unique: true, Limit: 5, Flag: true, Msg: "late", V: smallVoucher("T/z", "late")})
					fp := stats.FP("table", e.name, e.initr, reopen, k)
					sp.Nontrivial(fp)
				}
				of.checkListed(h)
				h.close()
				sp.Eval()
			}
		}
		sp.Class("table_pass")
	})
}

// ---------------------------------------------------------------------------
// C19 on the channels level

func TestC19_Fsmx(t *testing.T) {
	sp := stats.For("C19")
	sp.SetRule("every ChannelState obtained by the explorers (query results and published snapshots) is probed: all accessors under recover, identity views against the creation parameters, first/last voucher views, append-only logs. fsmx: all four roles, voucher-heavy histories with arbitrary IPLD values; mgrx: voucher / result exchanges with failing sends. Non-trivial: the state has zero voucher results or more than one voucher; distinct by (role, direction, status, log lengths)")
	rapid.Check(t, func(t *rapid.T) {
		spec := drawSpec(t, 0, rapid.Bool().Draw(t, "rich"))
		op := newOProbe()
		h := newHist(t, []chanSpec{spec}, op, oMono{})
		defer h.close()
		op.checkVec(h, h.chans[0], h.chans[0].last, "create")
		h.do(Act{Kind: "Open"})
		n := rapid.IntRange(1, 25).Draw(t, "n")
		var nextIdx int64
		for i := 0; i < n && !isTerminal(h.chans[0].last.Status); i++ {
			ws := append([]weighted{{"NewVoucher", 8}, {"NewVoucherResult", 8}, {"reopen", 1}}, lifeAlphabet(spec, false)...)
			k := pick(t, ws, "kind")
			if k == "reopen" {
				h.doReopen()
				continue
			}
			s := h.do(fill(t, Act{Kind: k}, &nextIdx))
			v := s.after
			if len(v.Results) == 0 || len(v.Vouchers) > 1 {
				sp.Nontrivial(stats.FP(spec.SelfInitiator, spec.Pull, v.Status, len(v.Vouchers), len(v.Results)))
			}
		}
		sp.EvalN(h.nSteps)
		sp.ClassN("states_with_zero_results", op.zeroResults)
		sp.ClassN("states_with_several_vouchers", op.multiVoucher)
		if sp.WantSample() {
			sp.Sample(stats.FP(h.log), map[string]any{"engine": "fsmx", "channel": spec.String(), "history": h.log})
		}
	})
}

// ---------------------------------------------------------------------------
// C18 on the channels level: duplicate CreateNew

func TestC18_FsmxDuplicate(t *testing.T) {
	sp := stats.For("C18")
	rapid.Check(t, func(t *rapid.T) {
		spec := drawSpec(t, 0, false)
		h := newHist(t, []chanSpec{spec}, oMono{})
		defer h.close()
		h.do(Act{Kind: "Open"})
		var nextIdx int64
		n := rapid.IntRange(0, 12).Draw(t, "n")
		for i := 0; i < n && !isTerminal(h.chans[0].last.Status); i++ {
			h.do(fill(t, Act{Kind: pick(t, lifeAlphabet(spec, false), "kind")}, &nextIdx))
		}
		reopened := rapid.Bool().Draw(t, "reopen")
		if reopened {
			h.doReopen()
		}
		c := h.chans[0]
		before := c.last
		raw := h.rig.ds.Raw(storeKey(c.chid))
		pubs := h.rig.pub.count(c.chid)
		// same identity, possibly different parameters
		dup := spec
		if rapid.Bool().Draw(t, "differentParams") {
			dup.Base = simpleCid(49)
			dup.Voucher = smallVoucher("T/dup", "dup")
		}
		_, err := h.rig.create(dup)
		if err == nil {
			h.fail("C18/duplicate-create-accepted", "CreateNew with existing id %s returned nil", chidStr(c.chid))
		}
		st := h.rig.sync(h.t, c.chid)
		v, _ := vecOf(st)
		if v.Full() != before.Full() || !sameBytes(raw, h.rig.ds.Raw(storeKey(c.chid))) || h.rig.pub.count(c.chid) != pubs {
			h.fail("C18/duplicate-create-disturbed", "duplicate CreateNew changed channel %s:\n before %s\n after  %s", chidStr(c.chid), before.Full(), v.Full())
		}
		sp.Eval()
		if h.nSteps > 2 {
			fp := stats.FP("fsmx-dup", spec.SelfInitiator, spec.Pull, before.Status, reopened)
			sp.Nontrivial(fp)
			sp.Sample(fp, map[string]any{"engine": "fsmx", "what": "duplicate CreateNew", "after_reopen": reopened, "history": h.log})
		}
		sp.Class(fmt.Sprintf("dup_create_reopen_%v", reopened))
	})
}
