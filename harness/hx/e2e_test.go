package hx

import (
	"bytes"
	"fmt"
	"os"
	"strings"
	"sync"
	"testing"
	"time"

	"github.com/ipfs/go-cid"
	"github.com/ipld/go-ipld-prime/datamodel"
	"github.com/ipld/go-ipld-prime/node/basicnode"
	"pgregory.net/rapid"

	datatransfer "github.com/filecoin-project/go-data-transfer/v2"
	gstransport "github.com/filecoin-project/go-data-transfer/v2/transport/graphsync"

	"verif/harness/dbl"
	"verif/harness/stats"
)

type e2eScn struct {
	pull           bool
	dups           bool
	depthLimit     int64 // 0 = whole DAG
	customStore    bool
	idleCfg        bool // pull with a store passed as an open option: a configurer is registered too, and returns nothing
	storeViaCfg    bool // pull only: the per-channel store comes from a transport configurer (survives a process restart) instead of an open option
	forcePause     bool
	limits         []uint64 // initial limit and raises; a trailing 0 lifts the limit
	reqFinal       bool
	pauseAfter     int // initiator pauses after the k-th data event (0 = never)
	voucherAfter   int
	acceptLost     bool   // pull only: the initiator's process is replaced while the responder validates the request, so the accepting response reaches nobody; the new process restarts the channel
	finalOnVoucher bool   // finalization is released by the responder's application only when the initiator's final voucher arrives
	fault          string // "", "cut-restart-initiator", "cut-restart-responder"
	faultAtLimit   int    // index into limits at which the fault is applied
	faultAtOpen    bool   // apply the fault while the responder is force-paused, before any block moved
}

func (s e2eScn) String() string {
	dir := "push"
	if s.pull {
		dir = "pull"
	}
	return fmt.Sprintf("%s dups=%v depthLimit=%d customStore=%v(viaConfigurer=%v idleConfigurer=%v) forcePause=%v limits=%v finalization=%v(onVoucher=%v) pauseAfter=%d voucherAfter=%d fault=%q@%d atOpen=%v acceptLost=%v",
		dir, s.dups, s.depthLimit, s.customStore, s.storeViaCfg, s.idleCfg, s.forcePause, s.limits, s.reqFinal, s.finalOnVoucher, s.pauseAfter, s.voucherAfter, s.fault, s.faultAtLimit, s.faultAtOpen, s.acceptLost)
}

const e2eCaseTimeout = 3 * time.Second

// runE2E executes one scenario and returns (outcome class, violation key, message, log).
func runE2E(t *rapid.T, scn e2eScn, w *e2eWorld, pl payload, sel datamodel.Node, order []cid.Cid, uniqueSize uint64) (string, string, string, []string) {
	var logMu sync.Mutex
	var log []string
	logf := func(f string, a ...any) {
		logMu.Lock()
		log = append(log, fmt.Sprintf(f, a...))
		logMu.Unlock()
	}
	a, b := w.a, w.b
	sender, receiver := a, b
	if scn.pull {
		sender, receiver = b, a
	}
	// receiver's per-channel store
	recvStore := receiver.store
	custom := newMemStore()
	if scn.customStore {
		recvStore = custom
	}
	// responder's validator script
	limitIdx := 0
	first := datatransfer.ValidationResult{Accepted: true, ForcePause: scn.forcePause, RequiresFinalization: scn.reqFinal}
	if len(scn.limits) > 0 {
		first.DataLimit = scn.limits[0]
	}
	b.val.Default = dbl.Outcome{Result: first}
	var ctlMu sync.Mutex
	faultDone := false
	released := false
	var chid datatransfer.ChannelID
	chidKnown := make(chan struct{})
	// A process is replaced at a quiet moment, not in the middle of a block: graphsync stores a
	// block and the channel counts it in two steps that no property claims to be atomic. Before
	// the receiver's process is replaced the harness waits until every block that reached its
	// store has also been counted and nothing new has arrived for a while; what the old process
	// still stored without counting it (blocks that were queued inside graphsync) is detected
	// once that process is gone, and the Received total is then not judged for the scenario.
	recv0 := recvStore.len()
	receiverCutMidBlock := false
	reportCutInHalf := false
	countedBlocks := func(n *e2eNode) int {
		counted := 0
		for _, e := range n.eventsOf(chid) {
			if e.code == datatransfer.DataReceivedProgress {
				counted++
			}
		}
		return counted
	}
	replaceProcess := func(n *e2eNode) {
		if n == receiver {
			deadline := time.Now().Add(2 * time.Second)
			stableSince, last := time.Now(), -1
			for time.Now().Before(deadline) {
				stored := recvStore.len() - recv0
				if stored != last {
					last, stableSince = stored, time.Now()
				}
				if stored == countedBlocks(n) && time.Since(stableSince) > 20*time.Millisecond {
					break
				}
				time.Sleep(200 * time.Microsecond)
			}
		}
		n.restartProcessWith(t, w.ctx, func() {
			if n == receiver && recvStore.len()-recv0 != countedBlocks(n) {
				receiverCutMidBlock = true
				logf("the receiver's old process stored %d new blocks but counted %d", recvStore.len()-recv0, countedBlocks(n))
			}
			// one block report is two events (the byte total, then the block index): a process that
			// stops between the two leaves half a report behind, which C07 does not cover either
			// ("process restarts between reports")
			half := map[datatransfer.EventCode]bool{}
			for _, e := range n.eventsOf(chid) {
				switch e.code {
				case datatransfer.DataQueuedProgress, datatransfer.DataSentProgress, datatransfer.DataReceivedProgress:
					half[e.code] = true
				case datatransfer.DataQueued:
					half[datatransfer.DataQueuedProgress] = false
				case datatransfer.DataSent:
					half[datatransfer.DataSentProgress] = false
				case datatransfer.DataReceived:
					half[datatransfer.DataReceivedProgress] = false
				}
			}
			for code, open := range half {
				if open {
					reportCutInHalf = true
					logf("the old process of the %s stopped between the two events of one block report (%s applied, its index event not)", n.name, datatransfer.Events[code])
				}
			}
		})
	}

	nextLimit := func() uint64 {
		limitIdx++
		if limitIdx < len(scn.limits) {
			return scn.limits[limitIdx]
		}
		return 0
	}
	if scn.acceptLost {
		var once sync.Once
		b.val.OnCall = func(c dbl.VCall) {
			if c.Kind != "pull" {
				return
			}
			once.Do(func() {
				select {
				case <-chidKnown:
				case <-time.After(watchdog):
					return
				}
				logf("the initiator's process is replaced while the responder validates the request: the accepting response will reach nobody")
				a.restartProcess(t, w.ctx)
				go func() {
					time.Sleep(5 * time.Millisecond)
					err := a.mgr.RestartDataTransferChannel(w.ctx, chid)
					logf("the new initiator process restarts the channel: %v", err)
				}()
			})
		}
	}
	if scn.customStore && !scn.pull {
		b.configurer = func(datatransfer.ChannelID, datatransfer.TypedVoucher) []datatransfer.TransportOption {
			return []datatransfer.TransportOption{gstransport.UseStore(custom.linkSystem(false))}
		}
		_ = b.mgr.RegisterTransportConfigurer(e2eType, b.configurer)
	}
	if scn.customStore && scn.pull && !scn.storeViaCfg && scn.idleCfg {
		// a transport configurer is registered for the voucher type but has nothing to say
		// about this voucher: the options passed with the open call stay in force
		a.configurer = func(datatransfer.ChannelID, datatransfer.TypedVoucher) []datatransfer.TransportOption { return nil }
		_ = a.mgr.RegisterTransportConfigurer(e2eType, a.configurer)
	}
	if scn.customStore && scn.pull && scn.storeViaCfg {
		a.configurer = func(datatransfer.ChannelID, datatransfer.TypedVoucher) []datatransfer.TransportOption {
			return []datatransfer.TransportOption{gstransport.UseStore(custom.linkSystem(false))}
		}
		_ = a.mgr.RegisterTransportConfigurer(e2eType, a.configurer)
	}
	// responder controller
	b.mu.Lock()
	b.hooks = append(b.hooks, func(evt datatransfer.Event, st datatransfer.ChannelState) {
		select {
		case <-chidKnown:
		default:
			return
		}
		if st.ChannelID() != chid {
			return
		}
		switch {
		case evt.Code == datatransfer.DataLimitExceeded:
			go func() {
				// wait until the initiator has seen the pause notice, then a short settle
				a.waitFor(chid, 2*time.Second, func(es []e2eEvent) bool {
					for _, e := range es {
						if e.code == datatransfer.PauseResponder {
							return true
						}
					}
					return false
				})
				time.Sleep(3 * time.Millisecond)
				ctlMu.Lock()
				doFault := scn.fault != "" && !faultDone && limitIdx == scn.faultAtLimit
				if doFault {
					faultDone = true
				}
				nl := nextLimit()
				ctlMu.Unlock()
				if doFault {
					logf("fault: cutting the link while stalled at the limit, then %s", scn.fault)
					_ = w.mn.DisconnectPeers(a.host.ID(), b.host.ID())
					_ = w.mn.UnlinkPeers(a.host.ID(), b.host.ID())
					time.Sleep(5 * time.Millisecond)
					_, _ = w.mn.LinkPeers(a.host.ID(), b.host.ID())
					// the restart re-validates: that lifts / raises the limit
					b.val.Default = dbl.Outcome{Result: datatransfer.ValidationResult{Accepted: true, DataLimit: nl, RequiresFinalization: scn.reqFinal}}
					var err error
					switch scn.fault {
					case "cut-restart-initiator":
						err = a.mgr.RestartDataTransferChannel(w.ctx, chid)
					case "cut-restart-responder":
						err = b.mgr.RestartDataTransferChannel(w.ctx, chid)
					case "process-restart-initiator":
						replaceProcess(a)
						err = a.mgr.RestartDataTransferChannel(w.ctx, chid)
					case "process-restart-responder":
						replaceProcess(b)
						err = b.mgr.RestartDataTransferChannel(w.ctx, chid)
					}
					logf("restart returned %v", err)
					return
				}
				err := b.mgr.UpdateValidationStatus(w.ctx, chid, datatransfer.ValidationResult{Accepted: true, DataLimit: nl, RequiresFinalization: scn.reqFinal})
				logf("re-validated with limit %d: %v", nl, err)
			}()
		case evt.Code == datatransfer.BeginFinalizing && scn.finalOnVoucher:
			logf("responder awaits the initiator's final voucher")
		case evt.Code == datatransfer.NewVoucher && scn.finalOnVoucher && st.Status() == datatransfer.Finalizing:
			go func() {
				time.Sleep(time.Millisecond)
				err := b.mgr.UpdateValidationStatus(w.ctx, chid, datatransfer.ValidationResult{Accepted: true, RequiresFinalization: false, DataLimit: st.DataLimit()})
				logf("final voucher arrived, finalization released: %v", err)
			}()
		case evt.Code == datatransfer.BeginFinalizing:
			go func() {
				time.Sleep(2 * time.Millisecond)
				err := b.mgr.UpdateValidationStatus(w.ctx, chid, datatransfer.ValidationResult{Accepted: true, RequiresFinalization: false, DataLimit: st.DataLimit()})
				logf("finalization released: %v", err)
			}()
		case scn.forcePause && evt.Code == datatransfer.Accept:
			ctlMu.Lock()
			r := released
			released = true
			ctlMu.Unlock()
			if r {
				return
			}
			go func() {
				// graphsync applies a requester-side pause asynchronously: give it time on a push
				if scn.pull {
					time.Sleep(3 * time.Millisecond)
				} else {
					time.Sleep(25 * time.Millisecond)
				}
				if scn.faultAtOpen && scn.fault != "" {
					ctlMu.Lock()
					faultDone = true
					ctlMu.Unlock()
					logf("fault: cutting the link while force-paused (no block moved yet), then %s", scn.fault)
					_ = w.mn.DisconnectPeers(a.host.ID(), b.host.ID())
					_ = w.mn.UnlinkPeers(a.host.ID(), b.host.ID())
					time.Sleep(5 * time.Millisecond)
					_, _ = w.mn.LinkPeers(a.host.ID(), b.host.ID())
					// the restart re-validates without the forced pause
					b.val.Default = dbl.Outcome{Result: datatransfer.ValidationResult{Accepted: true, DataLimit: first.DataLimit, RequiresFinalization: scn.reqFinal}}
					var err error
					switch scn.fault {
					case "cut-restart-initiator":
						err = a.mgr.RestartDataTransferChannel(w.ctx, chid)
					case "cut-restart-responder":
						err = b.mgr.RestartDataTransferChannel(w.ctx, chid)
					case "process-restart-initiator":
						replaceProcess(a)
						err = a.mgr.RestartDataTransferChannel(w.ctx, chid)
					case "process-restart-responder":
						replaceProcess(b)
						err = b.mgr.RestartDataTransferChannel(w.ctx, chid)
					}
					logf("restart returned %v", err)
					if scn.pull {
						// the transport starts the response of a restarted pull paused when the transfer
						// had never started ("still unsealing"), whatever the re-validation said: the
						// responder's application releases it when it is ready, as it would have done
						// without the interruption
						time.Sleep(5 * time.Millisecond)
						err = b.mgr.ResumeDataTransferChannel(w.ctx, chid)
						logf("responder resumes the never-started transfer after the restart: %v", err)
					}
					return
				}
				err := b.mgr.UpdateValidationStatus(w.ctx, chid, datatransfer.ValidationResult{Accepted: true, DataLimit: first.DataLimit, RequiresFinalization: scn.reqFinal})
				logf("forced pause released: %v", err)
			}()
		}
	})
	b.mu.Unlock()
	// initiator controller
	dataEvents := 0
	a.mu.Lock()
	a.hooks = append(a.hooks, func(evt datatransfer.Event, st datatransfer.ChannelState) {
		if evt.Code == datatransfer.ResponderBeginsFinalization && scn.finalOnVoucher {
			// the responder holds its final Complete back: settle with the final voucher
			id := st.ChannelID()
			go func() {
				err := a.mgr.SendVoucher(w.ctx, id, datatransfer.TypedVoucher{Type: e2eType, Voucher: basicnode.NewString("final")})
				logf("initiator sent its final voucher: %v", err)
			}()
		}
		if evt.Code != datatransfer.DataReceived && evt.Code != datatransfer.DataQueued {
			return
		}
		ctlMu.Lock()
		dataEvents++
		k := dataEvents
		ctlMu.Unlock()
		id := st.ChannelID()
		if scn.pauseAfter > 0 && k == scn.pauseAfter {
			go func() {
				e1 := a.mgr.PauseDataTransferChannel(w.ctx, id)
				time.Sleep(4 * time.Millisecond)
				e2 := a.mgr.ResumeDataTransferChannel(w.ctx, id)
				logf("initiator pause/resume after data event %d: %v / %v", k, e1, e2)
			}()
		}
		if scn.voucherAfter > 0 && k == scn.voucherAfter {
			go func() {
				err := a.mgr.SendVoucher(w.ctx, id, datatransfer.TypedVoucher{Type: e2eType, Voucher: basicnode.NewString("extra")})
				logf("initiator sent a voucher after data event %d: %v", k, err)
			}()
		}
	})
	a.mu.Unlock()
	// open
	v := datatransfer.TypedVoucher{Type: e2eType, Voucher: basicnode.NewString("open")}
	var opts []datatransfer.TransferOption
	if scn.customStore && scn.pull && !scn.storeViaCfg {
		opts = append(opts, datatransfer.WithTransportOptions(gstransport.UseStore(custom.linkSystem(false))))
	}
	var err error
	if scn.pull {
		chid, err = a.mgr.OpenPullDataChannel(w.ctx, b.host.ID(), v, pl.root, sel, opts...)
	} else {
		chid, err = a.mgr.OpenPushDataChannel(w.ctx, b.host.ID(), v, pl.root, sel, opts...)
	}
	if err != nil {
		return "open-failed", "", "", append(log, fmt.Sprintf("open: %v", err))
	}
	close(chidKnown)
	terminal := func(es []e2eEvent) bool { return len(es) > 0 && isTerminal(es[len(es)-1].status) }
	if !a.waitFor(chid, e2eCaseTimeout, terminal) {
		st, _ := a.mgr.ChannelState(w.ctx, chid)
		bs, _ := b.mgr.ChannelState(w.ctx, chid)
		s1, s2 := "?", "?"
		if st != nil {
			s1 = datatransfer.Statuses[st.Status()]
		}
		if bs != nil {
			s2 = datatransfer.Statuses[bs.Status()]
		}
		logf("timeout: initiator %s, responder %s", s1, s2)
		logMu.Lock()
		defer logMu.Unlock()
		return "timeout", "", "", log
	}
	aes := a.eventsOf(chid)
	final := aes[len(aes)-1]
	accepted := false
	for _, e := range aes {
		if e.code == datatransfer.Accept {
			accepted = true
		}
	}
	// "after the responder accepted it": the responder's own record of the acceptance counts too
	// (the initiator may never have seen the first response - it was replaced or cut off before
	// it arrived - and learn of the acceptance only through an accepted restart)
	acceptLost := false
	if !accepted {
		for _, e := range b.eventsOf(chid) {
			if e.code == datatransfer.Accept {
				accepted, acceptLost = true, true
			}
		}
	}
	if acceptLost {
		logf("the initiator never saw the responder's first (accepting) response")
	}
	if final.status != datatransfer.Completed || !accepted {
		logf("initiator ended %s (%q)", datatransfer.Statuses[final.status], final.vec.Message)
		logMu.Lock()
		defer logMu.Unlock()
		return "initiator-" + datatransfer.Statuses[final.status], "", "", log
	}
	// ---- the property applies -------------------------------------------
	fail := func(key, f string, args ...any) (string, string, string, []string) {
		logMu.Lock()
		defer logMu.Unlock()
		return "violation", key, fmt.Sprintf(f, args...), log
	}
	// 1. the responder has the same channel, has sent its final Complete and settles in Completed
	if !b.waitFor(chid, watchdog, terminal) {
		bs, _ := b.mgr.ChannelState(w.ctx, chid)
		st := "missing"
		if bs != nil {
			st = datatransfer.Statuses[bs.Status()]
		}
		return fail("C01/responder-not-settled", "initiator reports Completed but the responder's channel is %s", st)
	}
	bes := b.eventsOf(chid)
	if bes[len(bes)-1].status != datatransfer.Completed && scn.fault == "process-restart-responder" && b.completeSentInEarlierLifetime(a.host.ID(), chid.ID) {
		return fail("C01/responder-crash-between-complete-send-and-record", "the responder process was replaced after it had sent its final Complete but before it recorded it: the initiator is Completed, the responder ended %s", datatransfer.Statuses[bes[len(bes)-1].status])
	}
	if bes[len(bes)-1].status != datatransfer.Completed {
		return fail("C01/responder-not-completed", "initiator reports Completed but the responder ended %s (%q)", datatransfer.Statuses[bes[len(bes)-1].status], bes[len(bes)-1].vec.Message)
	}
	// (on the release of a finalization the manager records the events first and sends the
	// final Complete afterwards, and the tap logs a send when it has returned: the responder
	// can be Completed, and the initiator can have processed the message, before the tap's
	// entry exists - so the log is polled, not read once)
	finalComplete := false
	for deadline := time.Now().Add(watchdog); !finalComplete && time.Now().Before(deadline); {
		for _, s := range b.sent.snapshot() {
			if resp, ok := s.Msg.(datatransfer.Response); ok && !s.Msg.IsRequest() && resp.IsComplete() && !resp.IsPaused() && s.To == a.host.ID() && s.Msg.TransferID() == chid.ID && s.Err == nil {
				finalComplete = true
			}
		}
		if !finalComplete {
			time.Sleep(200 * time.Microsecond)
		}
	}
	if !finalComplete {
		return fail("C01/no-final-complete", "initiator reports Completed but the responder never sent an un-paused Complete")
	}
	// 2. the receiver holds every selected block, byte-identical
	for i, c := range order {
		want, _ := sender.store.get(c)
		got, ok := recvStore.get(c)
		if !ok {
			return fail("C01/block-missing", "block %d/%d (%s) selected by the request is not in the receiver's store", i+1, len(order), c)
		}
		if !bytes.Equal(got, want) {
			return fail("C01/block-differs", "block %s differs in the receiver's store", c)
		}
	}
	// 3. totals
	as, _ := a.mgr.ChannelState(w.ctx, chid)
	bs, _ := b.mgr.ChannelState(w.ctx, chid)
	rs, ss := bs, as
	if scn.pull {
		rs, ss = as, bs
	}
	logf("totals: receiver received=%d sender queued=%d sent=%d unique payload=%d", rs.Received(), ss.Queued(), ss.Sent(), uniqueSize)
	if reportCutInHalf && (rs.Received() != uniqueSize || ss.Queued() != uniqueSize) {
		logMu.Lock()
		defer logMu.Unlock()
		return "process-replaced-inside-a-block-report", "", "", log
	}
	if receiverCutMidBlock && rs.Received() < uniqueSize && ss.Queued() == uniqueSize {
		logMu.Lock()
		defer logMu.Unlock()
		return "receiver-replaced-mid-block", "", "", log
	}
	if rs.Received() != uniqueSize || ss.Queued() != uniqueSize {
		return fail("C01/totals", "receiver Received=%d, sender Queued=%d, unique payload size=%d", rs.Received(), ss.Queued(), uniqueSize)
	}
	logMu.Lock()
	defer logMu.Unlock()
	return "completed", "", "", log
}

// faultKinds lists the faults that may be applied to a scenario.
func faultKinds(scn e2eScn, sp *stats.Prop) []string {
	kinds := []string{"cut-restart-initiator", "cut-restart-responder"}
	if scn.pull {
		kinds = append(kinds, "process-restart-responder")
	} else {
		// Known finding C01/responder-crash-between-complete-send-and-record: on a push
		// the responder's pause is applied asynchronously by graphsync, so the transfer
		// may be finishing while the responder process is replaced. That input class is
		// excluded by construction (and counted) so that the search goes on behind it.
		sp.Class("excluded_known_push_responder_process_restart")
	}
	if !(scn.customStore && scn.pull && !scn.storeViaCfg) {
		// options passed to OpenPull live in memory only: a restarted initiator cannot know the per-channel store
		// (a store supplied by a registered transport configurer is known to every manager lifetime)
		kinds = append(kinds, "process-restart-initiator")
	}
	return kinds
}

// TestC01_E2E: two complete nodes in one process.
func TestC01_E2E(t *testing.T) {
	sp := stats.For("C01")
	sp.SetRule("e2e: two complete nodes in one process (libp2p mocknet, real go-graphsync, real network / transport / managers over recording datastores and in-memory block stores). Generated: payload DAG of dag-cbor / raw blocks (depth <= 3, fan-out <= 4, 0..2 KiB per node, re-used sub-DAGs for duplicate blocks), selector (whole DAG or depth-limited), direction, per-channel store on the receiver, responder validator script (forced pause released later, data-limit schedule boundary-biased to block sums, finalization), initiator pause/resume and extra voucher after the k-th data event, link cut + restart by either side while stalled at a limit. Oracle when the initiator reports Completed after an Accept: responder has the same channel, sent an un-paused Complete and settles Completed; an independent go-ipld-prime walk of the selector over the sender's store yields the block list, every block of it is byte-identical in the receiver's store; receiver Received == sender Queued == summed size of the distinct blocks. Runs that do not complete are classified and counted, not judged. mgrx: the local-only pull clause. Non-trivial: completed with >= 2 blocks; distinct by (scenario, payload shape)")
	rapid.Check(t, func(t *rapid.T) {
		scn := e2eScn{
			pull:        rapid.Bool().Draw(t, "pull"),
			dups:        rapid.Bool().Draw(t, "dups"),
			customStore: rapid.IntRange(0, 2).Draw(t, "customStore") == 0,
			storeViaCfg: rapid.Bool().Draw(t, "storeViaConfigurer"),
			idleCfg:     rapid.Bool().Draw(t, "configurerWithNothingToSay"),
			forcePause:  rapid.IntRange(0, 4).Draw(t, "forcePause") == 0,
			reqFinal:    rapid.IntRange(0, 2).Draw(t, "finalization") == 0,
		}
		if scn.reqFinal {
			scn.finalOnVoucher = rapid.Bool().Draw(t, "finalizationReleasedByFinalVoucher")
		}
		acceptLost := rapid.IntRange(0, 7).Draw(t, "acceptingResponseLost") == 0
		if f := os.Getenv("VERIF_E2E_FORCE"); strings.Contains(f, "pull") {
			scn.pull = true
		} else if strings.Contains(f, "push") {
			scn.pull = false
		}
		w := newE2EWorld(t)
		defer func() {
			// stopping both nodes must return: a blocked Stop is a deadlock inside the
			// library (C20), reported as such when this test runs for C20 and as
			// inconclusive for the property this run was started for otherwise
			if !within(w.close) {
				key := "HARNESS/teardown-blocked-by-library-deadlock"
				if os.Getenv("VERIF_PROP") == "C20" {
					key = "C20/stop-did-not-return"
				}
				lib := libraryStacks()
				mfail(t, lib, key, "stopping the two nodes did not return within %s (goroutines blocked inside the library)", watchdog)
			}
		}()
		senderStore := w.a.store
		if scn.pull {
			senderStore = w.b.store
		}
		pl := drawPayload(t, senderStore, scn.dups)
		sel := selectorAll()
		if rapid.IntRange(0, 3).Draw(t, "depthLimited") == 0 {
			scn.depthLimit = int64(rapid.IntRange(1, pl.depth+1).Draw(t, "depthLimit"))
			sel = selectorDepth(scn.depthLimit)
		}
		order, err := walk(senderStore, pl.root, sel)
		if err != nil {
			t.Fatalf("HARNESS walk: %v", err)
		}
		var uniqueSize uint64
		var sums []uint64
		seen := map[cid.Cid]bool{}
		for _, c := range order {
			if !seen[c] {
				seen[c] = true
				b, _ := senderStore.get(c)
				uniqueSize += uint64(len(b))
				sums = append(sums, uniqueSize)
			}
		}
		// a third of the scenarios concentrate on interruptions: they always carry a fault
		// (at open under a forced pause, or at a data limit)
		focusRestart := rapid.IntRange(0, 2).Draw(t, "focusOnRestarts") == 0
		if focusRestart && !scn.forcePause && (len(sums) <= 1 || rapid.Bool().Draw(t, "interruptBeforeFirstBlock")) {
			scn.forcePause = true
		}
		if (focusRestart && !scn.forcePause || rapid.IntRange(0, 2).Draw(t, "withLimits") == 0) && len(sums) > 1 {
			nl := rapid.IntRange(1, 3).Draw(t, "nLimits")
			last := uint64(0)
			for i := 0; i < nl; i++ {
				s := sums[rapid.IntRange(0, len(sums)-2).Draw(t, "limitAt")]
				l := s + uint64(rapid.IntRange(0, 2).Draw(t, "limitDelta")) - 1
				if l <= last {
					continue
				}
				scn.limits = append(scn.limits, l)
				last = l
			}
			if len(scn.limits) > 0 && (focusRestart || rapid.IntRange(0, 2).Draw(t, "fault") == 0) {
				scn.fault = rapid.SampledFrom(faultKinds(scn, sp)).Draw(t, "faultKind")
				scn.faultAtLimit = rapid.IntRange(0, len(scn.limits)-1).Draw(t, "faultAt")
			}
		}
		if scn.forcePause && scn.fault == "" && (focusRestart || rapid.IntRange(0, 1).Draw(t, "faultAtOpen") == 0) {
			scn.fault = rapid.SampledFrom(faultKinds(scn, sp)).Draw(t, "faultKindAtOpen")
			scn.faultAtOpen = true
		}
		if acceptLost && scn.pull && scn.fault == "" && !scn.forcePause && !(scn.customStore && !scn.storeViaCfg) {
			scn.acceptLost = true
		}
		if rapid.IntRange(0, 3).Draw(t, "userPause") == 0 {
			scn.pauseAfter = rapid.IntRange(1, 4).Draw(t, "pauseAfter")
		}
		if rapid.IntRange(0, 4).Draw(t, "extraVoucher") == 0 {
			scn.voucherAfter = rapid.IntRange(1, 3).Draw(t, "voucherAfter")
		}
		if f := os.Getenv("VERIF_E2E_FORCE"); f != "" {
			// development aid: pin parts of the scenario (never set by the registered commands)
			for _, kv := range strings.Split(f, ",") {
				switch kv {
				case "store":
					scn.customStore = true
				case "cfg":
					scn.storeViaCfg = true
				case "atopen":
					scn.forcePause, scn.faultAtOpen, scn.limits = true, true, nil
					if scn.fault == "" {
						scn.fault = "cut-restart-initiator"
					}
				case "cutinit":
					scn.fault = "cut-restart-initiator"
				case "cutresp":
					scn.fault = "cut-restart-responder"
				case "procresp":
					scn.fault = "process-restart-responder"
				case "procinit":
					scn.fault = "process-restart-initiator"
				case "acceptlost":
					scn.acceptLost, scn.fault, scn.forcePause = true, "", false
				case "nopause":
					scn.pauseAfter, scn.voucherAfter = 0, 0
				}
			}
		}
		desc := fmt.Sprintf("scenario %s; payload %d blocks (%d positions selected, %d distinct, %d bytes)", scn, pl.blocks, len(order), len(sums), uniqueSize)
		// the whole scenario runs under a watchdog: every wait inside it is bounded by
		// seconds, so a scenario that takes longer than this is blocked inside a call
		var class, key, msg string
		var log []string
		scnDone := make(chan struct{})
		go func() {
			defer close(scnDone)
			class, key, msg, log = runE2E(t, scn, w, pl, sel, order, uniqueSize)
		}()
		select {
		case <-scnDone:
		case <-time.After(4 * watchdog):
			k := "HARNESS/scenario-blocked"
			if os.Getenv("VERIF_PROP") == "C20" {
				k = "C20/call-did-not-return"
			}
			mfail(t, append([]string{desc}, libraryStacks()...), k, "the scenario did not finish within %s: a call into the library did not return", 4*watchdog)
		}
		if class == "violation" {
			full := append([]string{desc}, log...)
			for _, side := range []*e2eNode{w.a, w.b} {
				for chid, es := range side.events {
					var codes []string
					for _, e := range es {
						codes = append(codes, fmt.Sprintf("%s/%s", datatransfer.Events[e.code], datatransfer.Statuses[e.status]))
					}
					full = append(full, fmt.Sprintf("%s events of %s: %v", side.name, chid, codes))
				}
			}
			mfail(t, full, key, "%s", msg)
		}
		sp.Eval()
		if os.Getenv("VERIF_PROP") == "C20" {
			stats.For("C20").Eval()
			stats.For("C20").Class("e2e_two_real_nodes")
			if scn.fault != "" || scn.pauseAfter > 0 {
				stats.For("C20").Nontrivial(stats.FP("e2e", scn.String(), pl.blocks))
			}
		}
		sp.Class("outcome_" + class)
		dir := "push"
		if scn.pull {
			dir = "pull"
		}
		sp.Class(dir + "_" + class)
		if class == "completed" && len(order) >= 2 {
			fp := stats.FP(scn.String(), len(order), len(sums))
			sp.Nontrivial(fp)
			sp.Sample(fp, map[string]any{"engine": "e2e", "case": desc, "log": log})
			if pl.dups && len(order) > len(sums) {
				sp.Class("completed_with_duplicate_blocks")
			}
			if len(scn.limits) > 0 {
				sp.Class("completed_with_limit_rounds")
			}
			if strings.HasPrefix(scn.fault, "cut") {
				sp.Class("completed_after_cut_and_restart")
			}
			if strings.HasPrefix(scn.fault, "process") {
				sp.Class("completed_after_process_restart")
			}
			if scn.faultAtOpen {
				sp.Class("completed_after_restart_before_first_block")
			}
			if scn.reqFinal {
				sp.Class("completed_with_finalization")
			}
			if scn.finalOnVoucher {
				sp.Class("completed_with_finalization_released_by_final_voucher")
			}
			if scn.acceptLost {
				sp.Class("completed_after_the_accepting_response_was_lost")
			}
			if scn.customStore {
				sp.Class("completed_with_per_channel_store")
			}
			if scn.customStore && scn.pull && scn.storeViaCfg && scn.fault == "process-restart-initiator" {
				sp.Class("completed_pull_with_configured_store_after_initiator_process_restart")
			}
			if scn.pauseAfter > 0 {
				sp.Class("completed_with_user_pause")
			}
			if scn.forcePause {
				sp.Class("completed_with_forced_pause")
			}
		} else if class != "completed" && os.Getenv("VERIF_E2E_DEBUG") != "" {
			fmt.Printf("NOT-COMPLETED %s: %s\n  %s\n", class, desc, strings.Join(log, "\n  "))
			for _, side := range []*e2eNode{w.a, w.b} {
				for chid, es := range side.events {
					var codes []string
					for _, e := range es {
						codes = append(codes, fmt.Sprintf("%s/%s", datatransfer.Events[e.code], datatransfer.Statuses[e.status]))
					}
					fmt.Printf("  %s events of %d: %v\n", side.name, chid.ID, codes)
				}
			}
		}
	})
}

// libraryStacks returns the stacks of the goroutines that are inside the library
// (and saves the complete dump next to the run's other files).
func libraryStacks() []string {
	var lib []string
	dump := allStacks()
	if dir := os.Getenv("VERIF_WORKDIR"); dir != "" {
		_ = os.WriteFile(dir+"/goroutines-when-blocked.txt", []byte(dump), 0o644)
	} else if os.Getenv("VERIF_E2E_DEBUG") != "" {
		_ = os.WriteFile(os.TempDir()+"/goroutines-when-blocked.txt", []byte(dump), 0o644)
	}
	for _, g := range strings.Split(dump, "\n\n") {
		if strings.Contains(g, "go-data-transfer/v2") && !strings.Contains(g, "go-statemachine.(*StateMachine).run") {
			lib = append(lib, g)
		}
	}
	return lib
}
