package hx

import (
	"fmt"
	"strings"

	datatransfer "github.com/filecoin-project/go-data-transfer/v2"
)

// ---------------------------------------------------------------------------
// oFrame: frame conditions of C03 on every published event.

type oFrame struct{}

func rawRespComparable(a, b Vec) bool {
	return a.Status != datatransfer.Finalizing && b.Status != datatransfer.Finalizing
}

func (oFrame) step(s *stepCtx) {
	checkCodes(s)
	p := s.before
	for _, e := range s.entries {
		n := e.Vec
		name := datatransfer.Events[e.Code]
		if bookkeeping[e.Code] {
			if n.Status != p.Status {
				// two bookkeeping events carry a lifecycle meaning in one situation each: the resume that
				// releases a finalizing responder, and the recorded restart of a channel whose initiator
				// never saw the first response (the responder's accepted restart is the acceptance)
				acceptanceByRestart := e.Code == datatransfer.Restart &&
					((p.Status == datatransfer.Requested && n.Status == datatransfer.Queued) || (p.Status == datatransfer.AwaitingAcceptance && n.Status == datatransfer.Ongoing))
				if !(e.Code == datatransfer.ResumeResponder && p.Status == datatransfer.Finalizing && n.Status == datatransfer.Completing) && !acceptanceByRestart {
					s.h.fail("C03/bookkeeping-moved-status", "bookkeeping event %s changed status %s -> %s", name, datatransfer.Statuses[p.Status], datatransfer.Statuses[n.Status])
				}
			}
		}
		if lifecycle[e.Code] {
			if n.Queued != p.Queued || n.Sent != p.Sent || n.Received != p.Received ||
				n.QueuedIdx != p.QueuedIdx || n.SentIdx != p.SentIdx || n.ReceivedIdx != p.ReceivedIdx {
				s.h.fail("C03/lifecycle-changed-counter", "lifecycle event %s changed a counter:\n before %s\n after  %s", name, p.Short(), n.Short())
			}
			if n.InitPaused != p.InitPaused || (rawRespComparable(p, n) && n.RespPaused != p.RespPaused) {
				s.h.fail("C03/lifecycle-changed-pause", "lifecycle event %s changed a pause flag:\n before %s\n after  %s", name, p.Short(), n.Short())
			}
			if strings.Join(n.Vouchers, ",") != strings.Join(p.Vouchers, ",") || strings.Join(n.Results, ",") != strings.Join(p.Results, ",") {
				s.h.fail("C03/lifecycle-changed-vouchers", "lifecycle event %s changed the voucher logs", name)
			}
		}
		p = n
	}
}

// ---------------------------------------------------------------------------
// oLife: the two-facts model of C03 for initiator channels and the
// finalization rule for responder channels.

type lifeModel struct {
	finished  bool
	word      string // "", "finalizing", "complete"
	localDone bool
	ended     bool
	// responder
	finalizing bool
	completed  bool
}

type oLife struct {
	m map[int]*lifeModel
	// counters for the evidence
	sawBoth, sawPausedComplete, sawLocalOnly, sawFinalizeRelease bool
	order                                                        []string
}

func newOLife() *oLife { return &oLife{m: map[int]*lifeModel{}} }

func (o *oLife) step(s *stepCtx) {
	m := o.m[s.c.idx]
	if m == nil {
		m = &lifeModel{}
		o.m[s.c.idx] = m
	}
	p := s.before
	for _, e := range s.entries {
		n := e.Vec
		name := datatransfer.Events[e.Code]
		if lifecycle[e.Code] && e.Code != datatransfer.CleanupComplete {
			o.order = append(o.order, name)
		}
		if s.c.spec.SelfInitiator {
			switch e.Code {
			case datatransfer.FinishTransfer:
				m.finished = true
				if p.Status == datatransfer.AwaitingAcceptance {
					m.localDone = true
					o.sawLocalOnly = true
				}
			case datatransfer.Restart:
				// a restart is recorded on the initiator when the responder accepted it, and the responder
				// accepts a restart only for a channel it had accepted: from here on the channel is an
				// accepted one and must wait for the responder's Complete like any other
				if n.Status == datatransfer.Requested || n.Status == datatransfer.AwaitingAcceptance {
					s.h.fail("C03/accepted-restart-not-counted-as-acceptance", "the responder accepted a restart of this channel, yet it is still %s: it would complete on the local finish alone", datatransfer.Statuses[n.Status])
				}
			case datatransfer.ResponderCompletes:
				m.word = "complete"
			case datatransfer.ResponderBeginsFinalization:
				m.word = "finalizing"
				o.sawPausedComplete = true
			case datatransfer.Cancel, datatransfer.Error:
				m.ended = true
			case datatransfer.Open:
				// only generated as the first event
				*m = lifeModel{}
			}
			if m.ended {
				if n.Status == datatransfer.Completing || n.Status == datatransfer.Completed {
					s.h.fail("C03/completed-after-ending", "initiator channel is %s after %s although it was cancelled/failed", datatransfer.Statuses[n.Status], name)
				}
			} else {
				want := (m.finished && m.word == "complete") || m.localDone
				got := n.Status == datatransfer.Completing || n.Status == datatransfer.Completed
				if m.finished && m.word == "complete" {
					o.sawBoth = true
				}
				if want != got {
					s.h.fail("C03/completion-rule", "after %s: status %s, but model says completed=%v (finished=%v word=%q localOnly=%v)",
						name, datatransfer.Statuses[n.Status], want, m.finished, m.word, m.localDone)
				}
			}
		} else {
			switch e.Code {
			case datatransfer.BeginFinalizing:
				m.finalizing = true
				if n.Status != datatransfer.Finalizing {
					s.h.fail("C03/begin-finalizing", "BeginFinalizing left status %s", datatransfer.Statuses[n.Status])
				}
			case datatransfer.Complete:
				m.finalizing = false
				m.completed = true
				if n.Status != datatransfer.Completing && n.Status != datatransfer.Completed {
					s.h.fail("C03/complete", "Complete left status %s", datatransfer.Statuses[n.Status])
				}
			case datatransfer.Cancel, datatransfer.Error:
				m.finalizing = false
				m.ended = true
			case datatransfer.ResumeResponder:
				if m.finalizing {
					m.finalizing = false
					m.completed = true
					o.sawFinalizeRelease = true
					if n.Status != datatransfer.Completing && n.Status != datatransfer.Completed {
						s.h.fail("C03/finalize-release", "ResumeResponder in Finalizing left status %s", datatransfer.Statuses[n.Status])
					}
				}
			case datatransfer.Open:
				*m = lifeModel{}
			}
			if m.finalizing {
				if n.Status != datatransfer.Finalizing {
					s.h.fail("C03/left-finalizing", "responder left Finalizing through %s (status now %s)", name, datatransfer.Statuses[n.Status])
				}
				if !n.RespPaused {
					s.h.fail("C03/finalizing-not-paused", "responder in Finalizing does not report itself paused after %s", name)
				}
				if !s.c.spec.SelfInitiator && !n.SelfPaused {
					s.h.fail("C11/finalizing-self-paused", "responder in Finalizing: SelfPaused()=false")
				}
			}
			if !m.completed && !m.ended && (n.Status == datatransfer.Completing || n.Status == datatransfer.Completed) {
				s.h.fail("C03/responder-completed-early", "responder channel is %s after %s without Complete or a released finalization", datatransfer.Statuses[n.Status], name)
			}
		}
		p = n
	}
}

// ---------------------------------------------------------------------------
// oPause: the two-flag reference model of C11.

type pauseModel struct{ I, R bool }

type oPause struct {
	m           map[int]*pauseModel
	initActed   map[int]bool
	respActed   map[int]bool
	ignoredSeen int
}

func newOPause() *oPause {
	return &oPause{m: map[int]*pauseModel{}, initActed: map[int]bool{}, respActed: map[int]bool{}}
}

func isPauseKind(k string) bool {
	switch k {
	case "PauseInitiator", "PauseResponder", "ResumeInitiator", "ResumeResponder":
		return true
	}
	return false
}

func (o *oPause) step(s *stepCtx) {
	m := o.m[s.c.idx]
	if m == nil {
		m = &pauseModel{I: s.before.InitPaused, R: s.before.RespPaused && s.before.Status != datatransfer.Finalizing}
		o.m[s.c.idx] = m
	}
	for _, e := range s.entries {
		n := e.Vec
		switch e.Code {
		case datatransfer.PauseInitiator:
			m.I = true
			o.initActed[s.c.idx] = true
		case datatransfer.ResumeInitiator:
			m.I = false
			o.initActed[s.c.idx] = true
		case datatransfer.PauseResponder, datatransfer.DataLimitExceeded:
			m.R = true
			o.respActed[s.c.idx] = true
		case datatransfer.ResumeResponder:
			m.R = false
			o.respActed[s.c.idx] = true
		}
		o.checkViews(s, n, m, datatransfer.Events[e.Code])
	}
	o.checkViews(s, s.after, m, "query")
	// a party that is recorded as paused can always be resumed while the transfer is
	// still running from its point of view (otherwise it would stay paused for ever):
	// the initiator while the status is a transferring one or the transfer has not
	// started; the responder until it has completed
	if !s.racing && len(s.entries) == 0 {
		st := s.before.Status
		notStarted := st == datatransfer.Requested || st == datatransfer.Queued
		if s.act.Kind == "ResumeInitiator" && s.before.InitPaused && (notStarted || isTransferring(st)) {
			s.h.fail("C11/resume-ignored-while-paused", "ResumeInitiator was ignored in status %s although the initiator is recorded as paused", datatransfer.Statuses[st])
		}
		responderRunning := notStarted || st == datatransfer.AwaitingAcceptance || st == datatransfer.Ongoing || st == datatransfer.TransferFinished
		if s.act.Kind == "ResumeResponder" && s.before.RespPaused && responderRunning {
			s.h.fail("C11/resume-ignored-while-paused", "ResumeResponder was ignored in status %s although the responder is recorded as paused", datatransfer.Statuses[st])
		}
	}
	if isPauseKind(s.act.Kind) && len(s.entries) == 0 && !s.racing {
		// ignored: nothing may have changed
		o.ignoredSeen++
		if s.after.Full() != s.before.Full() || !sameBytes(s.rawBefore, s.rawAfter) {
			s.h.fail("C11/ignored-pause-changed-state", "%s was not applied in status %s but the state changed:\n before %s\n after  %s",
				s.act, datatransfer.Statuses[s.before.Status], s.before.Full(), s.after.Full())
		}
	}
}

func (o *oPause) checkViews(s *stepCtx, n Vec, m *pauseModel, at string) {
	wantR := m.R || n.Status == datatransfer.Finalizing
	if n.InitPaused != m.I {
		s.h.fail("C11/initiator-flag", "at %s: InitiatorPaused()=%v, model %v", at, n.InitPaused, m.I)
	}
	if n.RespPaused != wantR {
		s.h.fail("C11/responder-flag", "at %s: ResponderPaused()=%v, model %v (status %s)", at, n.RespPaused, wantR, datatransfer.Statuses[n.Status])
	}
	if n.BothPaused != (m.I && wantR) {
		s.h.fail("C11/both-paused", "at %s: BothPaused()=%v, want %v", at, n.BothPaused, m.I && wantR)
	}
	wantSelf := wantR
	if s.c.spec.SelfInitiator {
		wantSelf = m.I
	}
	if n.SelfPaused != wantSelf {
		s.h.fail("C11/self-paused", "at %s: SelfPaused()=%v, want %v (self initiator=%v)", at, n.SelfPaused, wantSelf, s.c.spec.SelfInitiator)
	}
}

// ---------------------------------------------------------------------------
// oMono: totals and indexes never decrease (C07, holds for every history).

type oMono struct{}

func (oMono) step(s *stepCtx) {
	p := s.before
	check := func(n Vec, at string) {
		if n.Queued < p.Queued || n.Sent < p.Sent || n.Received < p.Received ||
			n.QueuedIdx < p.QueuedIdx || n.SentIdx < p.SentIdx || n.ReceivedIdx < p.ReceivedIdx {
			s.h.fail("C07/total-decreased", "a total decreased at %s:\n before %s\n after  %s", at, p.Short(), n.Short())
		}
		p = n
	}
	for _, e := range s.entries {
		check(e.Vec, datatransfer.Events[e.Code])
	}
	check(s.after, "query")
}

// ---------------------------------------------------------------------------
// oAcct: reference accumulator of C07 (for run-structured reports in a
// transferring status) and pause rule of C08.

type dirModel struct {
	hw     int64  // highest counted position
	bytes  uint64 // counted bytes
	maxIdx int64  // highest position reported
}

type acctModel struct {
	dirs map[string]*dirModel
	// C08
	limit uint64
}

type oAcct struct {
	m map[int]*acctModel
	// strict: reports are run structured, so byte totals must equal the model
	strict bool
	// checkLimit enables the C08 pause rule
	checkLimit bool
	// evidence
	replayed, nonUnique, counted, pauses, pausesExact, reportsAfterReopen int
}

func newOAcct(strict, limit bool) *oAcct {
	return &oAcct{m: map[int]*acctModel{}, strict: strict, checkLimit: limit}
}

func (o *oAcct) model(c *chanCtx) *acctModel {
	m := o.m[c.idx]
	if m == nil {
		m = &acctModel{dirs: map[string]*dirModel{"DataQueued": {}, "DataSent": {}, "DataReceived": {}}}
		o.m[c.idx] = m
	}
	return m
}

// isTransferring: the statuses in which payload moves (literal list, not the library's predicate).
func isTransferring(st datatransfer.Status) bool {
	switch st {
	case datatransfer.Ongoing, datatransfer.ResponderCompleted, datatransfer.ResponderFinalizing, datatransfer.AwaitingAcceptance:
		return true
	}
	return false
}

func dirBytes(v Vec, kind string) (uint64, int64) {
	switch kind {
	case "DataQueued":
		return v.Queued, v.QueuedIdx
	case "DataSent":
		return v.Sent, v.SentIdx
	}
	return v.Received, v.ReceivedIdx
}

func limitedKind(pull bool) string {
	if pull {
		return "DataQueued"
	}
	return "DataReceived"
}

func (o *oAcct) step(s *stepCtx) {
	m := o.model(s.c)
	for _, e := range s.entries {
		if e.Code == datatransfer.SetDataLimit {
			m.limit = e.Vec.DataLimit
		}
	}
	a := s.act
	if a.Kind != "DataQueued" && a.Kind != "DataSent" && a.Kind != "DataReceived" {
		return
	}
	d := m.dirs[a.Kind]
	transferring := isTransferring(s.before.Status)
	wantCount := a.Unique && a.Index > d.hw
	if a.Index <= d.maxIdx {
		o.replayed++
	}
	if !a.Unique {
		o.nonUnique++
	}
	if a.Index > d.maxIdx {
		d.maxIdx = a.Index
	}
	var prog *PubEntry
	var limEx *PubEntry
	for i := range s.entries {
		e := &s.entries[i]
		if e.Code == progressOf[kindToCode[a.Kind]] {
			prog = e
		}
		if e.Code == datatransfer.DataLimitExceeded {
			limEx = e
		}
	}
	b0, _ := dirBytes(s.before, a.Kind)
	b1, i1 := dirBytes(s.after, a.Kind)
	if !wantCount {
		if prog != nil || b1 != b0 {
			s.h.fail("C07/recount", "%s increased the byte total %d -> %d although it is a replay (highest counted position %d) or non-unique", a, b0, b1, d.hw)
		}
	}
	if wantCount {
		d.hw = a.Index
	}
	if !o.strict || !transferring {
		return
	}
	if wantCount {
		o.counted++
		d.bytes += a.Delta
		if prog == nil {
			s.h.fail("C07/missed-count", "%s advanced the high-water mark in status %s but no progress event was published", a, datatransfer.Statuses[s.before.Status])
		}
	}
	if b1 != d.bytes {
		s.h.fail("C07/byte-total", "after %s: byte total %d, reference accumulator %d", a, b1, d.bytes)
	}
	if i1 != d.maxIdx {
		s.h.fail("C07/index-total", "after %s: block index total %d, highest reported position %d", a, i1, d.maxIdx)
	}
	if !o.checkLimit {
		return
	}
	// C08 pause rule on the limited direction of a responder channel
	limited := !s.c.spec.SelfInitiator && a.Kind == limitedKind(s.c.spec.Pull)
	wantPause := limited && m.limit != 0 && wantCount && d.bytes >= m.limit
	gotPause := s.ret == datatransfer.ErrPause
	if wantPause != gotPause {
		s.h.fail("C08/pause-signal", "%s returned %v; limit=%d total=%d advanced=%v => pause expected=%v", a, s.ret, m.limit, d.bytes, wantCount, wantPause)
	}
	if s.ret != nil && s.ret != datatransfer.ErrPause {
		s.h.fail("C08/report-error", "%s returned unexpected error %v", a, s.ret)
	}
	if wantPause {
		o.pauses++
		if d.bytes == m.limit {
			o.pausesExact++
		}
		if limEx == nil {
			s.h.fail("C08/no-limit-event", "%s reached the limit (%d >= %d) but DataLimitExceeded was not published", a, d.bytes, m.limit)
		}
		if !limEx.Vec.RespPaused || !s.after.RespPaused {
			s.h.fail("C08/not-paused", "after DataLimitExceeded the responder is not marked paused")
		}
	} else if limEx != nil {
		s.h.fail("C08/early-limit-event", "%s published DataLimitExceeded with limit=%d total=%d", a, m.limit, d.bytes)
	}
}

// ---------------------------------------------------------------------------
// oFinal: C02 on the channels level.

type oFinal struct {
	stimuli map[string]bool
	count   int
}

func newOFinal() *oFinal { return &oFinal{stimuli: map[string]bool{}} }

func (o *oFinal) step(s *stepCtx) {
	c := s.c
	if c.final {
		o.count++
		o.stimuli[s.act.Kind] = true
		if len(s.entries) != 0 {
			s.h.fail("C02/event-after-terminal", "%d event(s) published for terminated channel after %s: first %s", len(s.entries), s.act, datatransfer.Events[s.entries[0].Code])
		}
		if s.after.Full() != c.finalVec.Full() {
			s.h.fail("C02/state-changed", "terminated channel changed after %s:\n was %s\n now %s", s.act, c.finalVec.Full(), s.after.Full())
		}
		if !sameBytes(s.rawAfter, c.finalRaw) {
			s.h.fail("C02/bytes-changed", "persisted bytes of terminated channel changed after %s", s.act)
		}
		if s.act.Kind == "Cancel" && s.ret != nil {
			s.h.fail("C02/cancel-terminated-error", "Cancel of a terminated channel returned %v", s.ret)
		}
		return
	}
	if isTerminal(s.after.Status) {
		c.final = true
		c.finalVec = s.after
		c.finalRaw = s.rawAfter
	}
}

// listed checks that InProgress still shows terminated channels unchanged.
func (o *oFinal) checkListed(h *hist) {
	m, err := h.rig.chs.InProgress()
	if err != nil {
		h.fail("C06/list-failed", "InProgress failed: %v", err)
	}
	for _, c := range h.chans {
		if !c.final {
			continue
		}
		st, ok := m[c.chid]
		if !ok {
			h.fail("C02/unlisted", "terminated channel %s no longer listed", chidStr(c.chid))
		}
		v, _ := vecOf(st)
		if v.Full() != c.finalVec.Full() {
			h.fail("C02/listed-state-changed", "InProgress shows a different state for terminated channel %s", chidStr(c.chid))
		}
	}
}

// ---------------------------------------------------------------------------
// oCleanup: C09 on the channels level.

type cleanupModel struct {
	endings  int // entries that entered a cleanup status from another status
	racing   int // other entries applied while already in a cleanup status
	seenEnv  int // env calls consumed
	cleanups int
	unprot   int
}

type oCleanup struct {
	m                         map[int]*cleanupModel
	quietEndings, racyEndings int
	extraCleanups             int
	endingFromNonOngoing      int
	restartCleanups           int
}

func newOCleanup() *oCleanup { return &oCleanup{m: map[int]*cleanupModel{}} }

func (o *oCleanup) step(s *stepCtx) {
	m := o.m[s.c.idx]
	if m == nil {
		m = &cleanupModel{}
		o.m[s.c.idx] = m
	}
	p := s.before
	endings, racing := 0, 0
	var firstTerminal *PubEntry
	for i := range s.entries {
		e := &s.entries[i]
		n := e.Vec
		if isCleanup(n.Status) && n.Status != p.Status {
			endings++
			if p.Status != datatransfer.Ongoing {
				o.endingFromNonOngoing++
			}
		} else if isCleanup(p.Status) && e.Code != datatransfer.CleanupComplete {
			racing++
		}
		if isTerminal(n.Status) && firstTerminal == nil {
			firstTerminal = e
			if e.Code != datatransfer.CleanupComplete {
				s.h.fail("C09/terminal-without-cleanup-complete", "terminal status %s reached through %s", datatransfer.Statuses[n.Status], datatransfer.Events[e.Code])
			}
			if n.Status != terminalOf(p.Status) {
				s.h.fail("C09/wrong-terminal", "cleanup status %s ended in %s", datatransfer.Statuses[p.Status], datatransfer.Statuses[n.Status])
			}
		}
		p = n
	}
	if endings == 0 && racing == 0 && firstTerminal == nil {
		return
	}
	// count the environment calls for this channel
	var cl, un []int64
	other := s.c.spec.Other
	for _, c := range s.h.rig.env.Calls() {
		if c.Kind == "cleanup" && c.Chid == s.c.chid {
			cl = append(cl, c.Seq)
		}
		if c.Kind == "unprotect" && c.Tag == s.c.chid.String() {
			if c.Peer != other {
				s.h.fail("C09/unprotect-wrong-peer", "Unprotect called for peer %s, counterparty is %s", c.Peer, other)
			}
			un = append(un, c.Seq)
		}
	}
	newCl := len(cl) - m.cleanups
	newUn := len(un) - m.unprot
	m.cleanups, m.unprot = len(cl), len(un)
	m.endings += endings
	m.racing += racing
	if racing == 0 {
		o.quietEndings += endings
		if newCl != endings {
			s.h.fail("C09/cleanup-count", "%d ending(s) with no racing event, but %d cleanup call(s) (action %s)", endings, newCl, s.act)
		}
	} else {
		o.racyEndings += endings
		if newCl < endings || newCl > endings+racing {
			s.h.fail("C09/cleanup-count-racing", "%d ending(s) with %d racing event(s), but %d cleanup call(s)", endings, racing, newCl)
		}
		o.extraCleanups += newCl - endings
	}
	if newUn != newCl {
		s.h.fail("C09/unprotect-count", "%d cleanup call(s) but %d Unprotect call(s)", newCl, newUn)
	}
	if firstTerminal != nil {
		if len(cl) == 0 || cl[0] > firstTerminal.Seq {
			s.h.fail("C09/terminal-before-cleanup", "terminal status published before any cleanup call")
		}
	}
	if endings > 0 && !s.racing {
		if !isTerminal(s.after.Status) {
			s.h.fail("C09/no-settle", "after %s the channel is %s", s.act, datatransfer.Statuses[s.after.Status])
		}
	}
}

// ---------------------------------------------------------------------------
// oProbe: C19 view consistency on every state seen.

type oProbe struct {
	zeroResults, multiVoucher int
	fps                       map[uint64]bool
}

func newOProbe() *oProbe { return &oProbe{fps: map[uint64]bool{}} }

func (o *oProbe) checkVec(h *hist, c *chanCtx, v Vec, at string) {
	ini, resp, snd, rcv := c.spec.parties(h.rig.self)
	want := fmt.Sprintf("pull=%v chid=%s self=%s other=%s snd=%s rcv=%s", c.spec.Pull, chidStr(c.chid), h.rig.self, c.spec.Other, snd, rcv)
	got := fmt.Sprintf("pull=%v chid=%s self=%s other=%s snd=%s rcv=%s", v.IsPull, chidStr(v.ChannelID), v.Self, v.Other, v.Sender, v.Recipient)
	if want != got {
		h.fail("C19/identity-views", "at %s: views %s, created as %s", at, got, want)
	}
	if v.IsPull != (v.ChannelID.Initiator == v.Recipient) {
		h.fail("C19/pull-view", "IsPull()=%v but initiator==recipient is %v", v.IsPull, v.ChannelID.Initiator == v.Recipient)
	}
	if v.ChannelID.Initiator != ini || v.ChannelID.Responder != resp || v.ChannelID.ID != c.spec.TID {
		h.fail("C19/channel-id", "ChannelID() = %s", chidStr(v.ChannelID))
	}
	if v.Other == v.Self {
		h.fail("C19/other-peer", "OtherPeer()==SelfPeer()")
	}
	if len(v.Vouchers) == 0 || v.Voucher != v.Vouchers[0] || v.Voucher != gen0(c.spec) {
		h.fail("C19/first-voucher", "at %s: Voucher()=%s Vouchers()=%v opening voucher %s", at, v.Voucher, v.Vouchers, gen0(c.spec))
	}
	if v.LastVoucher != v.Vouchers[len(v.Vouchers)-1] {
		h.fail("C19/last-voucher", "LastVoucher()=%s, log %v", v.LastVoucher, v.Vouchers)
	}
	if len(v.Results) == 0 {
		o.zeroResults++
		if v.LastResult != emptyVoucherStr {
			h.fail("C19/last-result-empty", "LastVoucherResult() on empty log = %s", v.LastResult)
		}
	} else if v.LastResult != v.Results[len(v.Results)-1] {
		h.fail("C19/last-result", "LastVoucherResult()=%s, log %v", v.LastResult, v.Results)
	}
	if len(v.Vouchers) > 1 {
		o.multiVoucher++
	}
}

func isPrefix(a, b []string) bool {
	if len(a) > len(b) {
		return false
	}
	for i := range a {
		if a[i] != b[i] {
			return false
		}
	}
	return true
}

func (o *oProbe) step(s *stepCtx) {
	p := s.before
	for _, e := range s.entries {
		o.checkVec(s.h, s.c, e.Vec, datatransfer.Events[e.Code])
		if !isPrefix(p.Vouchers, e.Vec.Vouchers) || !isPrefix(p.Results, e.Vec.Results) {
			s.h.fail("C19/log-not-append-only", "voucher logs changed other than by appending at %s: %v/%v -> %v/%v", datatransfer.Events[e.Code], p.Vouchers, p.Results, e.Vec.Vouchers, e.Vec.Results)
		}
		switch e.Code {
		case datatransfer.NewVoucher:
			if len(e.Vec.Vouchers) != len(p.Vouchers)+1 {
				s.h.fail("C19/voucher-not-appended", "NewVoucher: log length %d -> %d", len(p.Vouchers), len(e.Vec.Vouchers))
			}
		case datatransfer.NewVoucherResult:
			if len(e.Vec.Results) != len(p.Results)+1 {
				s.h.fail("C19/result-not-appended", "NewVoucherResult: log length %d -> %d", len(p.Results), len(e.Vec.Results))
			}
		default:
			if len(e.Vec.Vouchers) != len(p.Vouchers) || len(e.Vec.Results) != len(p.Results) {
				s.h.fail("C19/log-grew", "%s changed the voucher logs", datatransfer.Events[e.Code])
			}
		}
		p = e.Vec
	}
	o.checkVec(s.h, s.c, s.after, "query")
	if (s.act.Kind == "NewVoucher" || s.act.Kind == "NewVoucherResult") && len(s.entries) == 1 {
		want := fmtVoucher(s.act.V)
		l := s.after.Vouchers
		if s.act.Kind == "NewVoucherResult" {
			l = s.after.Results
		}
		if l[len(l)-1] != want {
			s.h.fail("C19/appended-value", "%s appended %s", s.act, l[len(l)-1])
		}
	}
}
