package hx

import (
	"fmt"
	"strings"
	"time"

	"github.com/libp2p/go-libp2p/core/peer"

	datatransfer "github.com/filecoin-project/go-data-transfer/v2"

	"verif/harness/gen"
)

// Vec is the value of every accessor of a channel state (the "observable state").
type Vec struct {
	Status      datatransfer.Status
	Message     string
	Queued      uint64
	Sent        uint64
	Received    uint64
	QueuedIdx   int64
	SentIdx     int64
	ReceivedIdx int64
	DataLimit   uint64
	ReqFinal    bool
	InitPaused  bool
	RespPaused  bool
	BothPaused  bool
	SelfPaused  bool
	TransferID  datatransfer.TransferID
	BaseCID     string
	Selector    string
	Sender      peer.ID
	Recipient   peer.ID
	Self        peer.ID
	Other       peer.ID
	TotalSize   uint64
	IsPull      bool
	ChannelID   datatransfer.ChannelID
	Vouchers    []string
	Results     []string
	Voucher     string
	LastVoucher string
	LastResult  string
	Stages      string
}

// probe calls one accessor under recover.
func probe(name string, f func()) (err error) {
	defer func() {
		if r := recover(); r != nil {
			err = fmt.Errorf("accessor %s panicked: %v", name, r)
		}
	}()
	f()
	return nil
}

func stagesStr(s *datatransfer.ChannelStages) string {
	if s == nil {
		return "<nil>"
	}
	var b strings.Builder
	for _, st := range s.Stages {
		if st == nil {
			b.WriteString("[nil]")
			continue
		}
		fmt.Fprintf(&b, "[%s|%s|%d|%d", st.Name, st.Description, time.Time(st.CreatedTime).UnixNano(), time.Time(st.UpdatedTime).UnixNano())
		for _, l := range st.Logs {
			if l == nil {
				b.WriteString("|nil")
				continue
			}
			fmt.Fprintf(&b, "|%q@%d", l.Log, time.Time(l.UpdatedTime).UnixNano())
		}
		b.WriteString("]")
	}
	return b.String()
}

// vecOf reads every accessor of st; the first panic is returned as an error
// (this is the totality half of C19).
func vecOf(st datatransfer.ChannelState) (v Vec, err error) {
	steps := []struct {
		n string
		f func()
	}{
		{"Status", func() { v.Status = st.Status() }},
		{"Message", func() { v.Message = st.Message() }},
		{"Queued", func() { v.Queued = st.Queued() }},
		{"Sent", func() { v.Sent = st.Sent() }},
		{"Received", func() { v.Received = st.Received() }},
		{"QueuedCidsTotal", func() { v.QueuedIdx = st.QueuedCidsTotal() }},
		{"SentCidsTotal", func() { v.SentIdx = st.SentCidsTotal() }},
		{"ReceivedCidsTotal", func() { v.ReceivedIdx = st.ReceivedCidsTotal() }},
		{"DataLimit", func() { v.DataLimit = st.DataLimit() }},
		{"RequiresFinalization", func() { v.ReqFinal = st.RequiresFinalization() }},
		{"InitiatorPaused", func() { v.InitPaused = st.InitiatorPaused() }},
		{"ResponderPaused", func() { v.RespPaused = st.ResponderPaused() }},
		{"BothPaused", func() { v.BothPaused = st.BothPaused() }},
		{"SelfPaused", func() { v.SelfPaused = st.SelfPaused() }},
		{"TransferID", func() { v.TransferID = st.TransferID() }},
		{"BaseCID", func() { v.BaseCID = st.BaseCID().String() }},
		{"Selector", func() { v.Selector = gen.EncHex(st.Selector()) }},
		{"Sender", func() { v.Sender = st.Sender() }},
		{"Recipient", func() { v.Recipient = st.Recipient() }},
		{"SelfPeer", func() { v.Self = st.SelfPeer() }},
		{"OtherPeer", func() { v.Other = st.OtherPeer() }},
		{"TotalSize", func() { v.TotalSize = st.TotalSize() }},
		{"IsPull", func() { v.IsPull = st.IsPull() }},
		{"ChannelID", func() { v.ChannelID = st.ChannelID() }},
		{"Vouchers", func() { v.Vouchers = gen.VouchersStr(st.Vouchers()) }},
		{"VoucherResults", func() { v.Results = gen.VouchersStr(st.VoucherResults()) }},
		{"Voucher", func() { v.Voucher = gen.VoucherStr(st.Voucher()) }},
		{"LastVoucher", func() { v.LastVoucher = gen.VoucherStr(st.LastVoucher()) }},
		{"LastVoucherResult", func() { v.LastResult = gen.VoucherStr(st.LastVoucherResult()) }},
		{"Stages", func() { v.Stages = stagesStr(st.Stages()) }},
	}
	for _, s := range steps {
		if e := probe(s.n, s.f); e != nil && err == nil {
			err = e
		}
	}
	return v, err
}

// Core prints everything except the stage log (which changes on every event).
func (v Vec) Core() string {
	return fmt.Sprintf("st=%s msg=%q q=%d s=%d r=%d qi=%d si=%d ri=%d lim=%d fin=%v ip=%v rp=%v bp=%v sp=%v tid=%d cid=%s sel=%s snd=%s rcp=%s self=%s oth=%s tot=%d pull=%v chid=%s-%s-%d v=%v vr=%v fv=%s lv=%s lr=%s",
		datatransfer.Statuses[v.Status], v.Message, v.Queued, v.Sent, v.Received, v.QueuedIdx, v.SentIdx, v.ReceivedIdx, v.DataLimit, v.ReqFinal,
		v.InitPaused, v.RespPaused, v.BothPaused, v.SelfPaused, v.TransferID, v.BaseCID, v.Selector,
		gen.PeerName(v.Sender), gen.PeerName(v.Recipient), gen.PeerName(v.Self), gen.PeerName(v.Other), v.TotalSize, v.IsPull,
		gen.PeerName(v.ChannelID.Initiator), gen.PeerName(v.ChannelID.Responder), v.ChannelID.ID,
		v.Vouchers, v.Results, v.Voucher, v.LastVoucher, v.LastResult)
}

// Full prints everything.
func (v Vec) Full() string { return v.Core() + " stages=" + v.Stages }

// Short is a compact rendering for samples / failure messages.
func (v Vec) Short() string {
	return fmt.Sprintf("%s q=%d/%d s=%d/%d r=%d/%d lim=%d fin=%v ip=%v rp=%v nv=%d nr=%d msg=%q",
		datatransfer.Statuses[v.Status], v.Queued, v.QueuedIdx, v.Sent, v.SentIdx, v.Received, v.ReceivedIdx, v.DataLimit, v.ReqFinal, v.InitPaused, v.RespPaused, len(v.Vouchers), len(v.Results), v.Message)
}

func chidStr(c datatransfer.ChannelID) string {
	return fmt.Sprintf("%s-%s-%d", gen.PeerName(c.Initiator), gen.PeerName(c.Responder), c.ID)
}
