package hx

import (
	"strings"
	"testing"

	"pgregory.net/rapid"

	"verif/harness/stats"
)

// TestC03_Fsmx: role-consistent histories against the two-facts lifecycle
// model and the frame conditions.
func TestC03_Fsmx(t *testing.T) {
	sp := stats.For("C03")
	sp.SetRule("fsmx: one channel (random role/direction), Open then <=40 events from the role-consistent alphabet biased to the completion signals; mgrx: completion callbacks/messages in both orders. Non-trivial: history contains both completion signals, a paused Complete, the local-only completion or a finalization release; distinct by the order pattern of the applied lifecycle events")
	rapid.Check(t, func(t *rapid.T) {
		spec := drawSpec(t, 0, false)
		life := newOLife()
		h := newHist(t, []chanSpec{spec}, oFrame{}, life, oMono{})
		defer h.close()
		h.do(Act{Kind: "Open"})
		n := rapid.IntRange(1, 40).Draw(t, "n")
		var nextIdx int64
		for i := 0; i < n && !h.chans[0].final && !isTerminal(h.chans[0].last.Status); i++ {
			m := life.m[0]
			fin := m != nil && m.finalizing
			a := fill(t, Act{Kind: pick(t, lifeAlphabet(spec, fin), "kind")}, &nextIdx)
			h.do(a)
		}
		sp.Eval()
		pattern := strings.Join(life.order, ">")
		if life.sawBoth || life.sawPausedComplete || life.sawLocalOnly || life.sawFinalizeRelease {
			fp := stats.FP(spec.SelfInitiator, spec.Pull, pattern)
			sp.Nontrivial(fp)
			sp.Sample(fp, map[string]any{"engine": "fsmx", "channel": spec.String(), "history": h.log})
		}
		if life.sawBoth {
			sp.Class("both_signals")
		}
		if life.sawPausedComplete {
			sp.Class("paused_complete")
		}
		if life.sawLocalOnly {
			sp.Class("local_only_completion")
		}
		if life.sawFinalizeRelease {
			sp.Class("finalization_released")
		}
		if spec.SelfInitiator {
			sp.Class("initiator")
		} else {
			sp.Class("responder")
		}
	})
}
