package hx

import (
	"bytes"
	"errors"
	"fmt"
	"strings"

	"pgregory.net/rapid"

	datatransfer "github.com/filecoin-project/go-data-transfer/v2"

	"verif/harness/dbl"
	"verif/harness/gen"
)

// Act is one generated action on a channel of the fsmx engine.
type Act struct {
	Kind   string
	Ch     int
	Delta  uint64
	Index  int64
	Unique bool
	Limit  uint64
	Flag   bool
	V      datatransfer.TypedVoucher
	Msg    string
}

func (a Act) String() string {
	switch a.Kind {
	case "DataSent", "DataQueued", "DataReceived":
		return fmt.Sprintf("c%d.%s(idx=%d,size=%d,unique=%v)", a.Ch, a.Kind, a.Index, a.Delta, a.Unique)
	case "SetDataLimit":
		return fmt.Sprintf("c%d.SetDataLimit(%d)", a.Ch, a.Limit)
	case "SetRequiresFinalization":
		return fmt.Sprintf("c%d.SetRequiresFinalization(%v)", a.Ch, a.Flag)
	case "NewVoucher", "NewVoucherResult":
		return fmt.Sprintf("c%d.%s(%s)", a.Ch, a.Kind, gen.VoucherStr(a.V))
	case "Error", "Disconnected", "RequestCancelled", "SendDataError", "ReceiveDataError":
		return fmt.Sprintf("c%d.%s(%q)", a.Ch, a.Kind, a.Msg)
	}
	return fmt.Sprintf("c%d.%s", a.Ch, a.Kind)
}

var kindToCode = map[string]datatransfer.EventCode{
	"Open": datatransfer.Open, "Accept": datatransfer.Accept, "Opened": datatransfer.Opened,
	"TransferInitiated": datatransfer.TransferInitiated, "Restart": datatransfer.Restart,
	"CompleteCleanupOnRestart": datatransfer.CompleteCleanupOnRestart,
	"DataSent":                 datatransfer.DataSent, "DataQueued": datatransfer.DataQueued, "DataReceived": datatransfer.DataReceived,
	"PauseInitiator": datatransfer.PauseInitiator, "PauseResponder": datatransfer.PauseResponder,
	"ResumeInitiator": datatransfer.ResumeInitiator, "ResumeResponder": datatransfer.ResumeResponder,
	"NewVoucher": datatransfer.NewVoucher, "NewVoucherResult": datatransfer.NewVoucherResult,
	"Complete": datatransfer.Complete, "FinishTransfer": datatransfer.FinishTransfer,
	"ResponderCompletes": datatransfer.ResponderCompletes, "ResponderBeginsFinalization": datatransfer.ResponderBeginsFinalization,
	"BeginFinalizing": datatransfer.BeginFinalizing, "Cancel": datatransfer.Cancel, "Error": datatransfer.Error,
	"Disconnected": datatransfer.Disconnected, "RequestCancelled": datatransfer.RequestCancelled,
	"SendDataError": datatransfer.SendDataError, "ReceiveDataError": datatransfer.ReceiveDataError,
	"SetDataLimit": datatransfer.SetDataLimit, "SetRequiresFinalization": datatransfer.SetRequiresFinalization,
}

var progressOf = map[datatransfer.EventCode]datatransfer.EventCode{
	datatransfer.DataSent: datatransfer.DataSentProgress, datatransfer.DataQueued: datatransfer.DataQueuedProgress, datatransfer.DataReceived: datatransfer.DataReceivedProgress,
}

// bookkeeping events per the statement of C03 (data, pause, voucher, limit,
// network-error notices) plus the just-record markers.
var bookkeeping = map[datatransfer.EventCode]bool{
	datatransfer.DataSent: true, datatransfer.DataQueued: true, datatransfer.DataReceived: true,
	datatransfer.DataSentProgress: true, datatransfer.DataQueuedProgress: true, datatransfer.DataReceivedProgress: true,
	datatransfer.PauseInitiator: true, datatransfer.PauseResponder: true, datatransfer.ResumeInitiator: true, datatransfer.ResumeResponder: true,
	datatransfer.NewVoucher: true, datatransfer.NewVoucherResult: true,
	datatransfer.SetDataLimit: true, datatransfer.SetRequiresFinalization: true, datatransfer.DataLimitExceeded: true,
	datatransfer.Disconnected: true, datatransfer.SendDataError: true, datatransfer.ReceiveDataError: true, datatransfer.RequestCancelled: true,
	datatransfer.Restart: true, datatransfer.Opened: true, datatransfer.CompleteCleanupOnRestart: true,
}

var lifecycle = map[datatransfer.EventCode]bool{
	datatransfer.Open: true, datatransfer.Accept: true, datatransfer.TransferInitiated: true,
	datatransfer.FinishTransfer: true, datatransfer.ResponderCompletes: true, datatransfer.ResponderBeginsFinalization: true,
	datatransfer.BeginFinalizing: true, datatransfer.Complete: true, datatransfer.Cancel: true, datatransfer.Error: true,
	datatransfer.CleanupComplete: true,
}

// the terminal statuses and the statuses in which a channel is cleaning up, as the
// properties name them (literal lists, not the library's predicates)
func isTerminal(s datatransfer.Status) bool {
	return s == datatransfer.Completed || s == datatransfer.Failed || s == datatransfer.Cancelled
}
func isCleanup(s datatransfer.Status) bool {
	return s == datatransfer.Completing || s == datatransfer.Failing || s == datatransfer.Cancelling
}

func terminalOf(s datatransfer.Status) datatransfer.Status {
	switch s {
	case datatransfer.Cancelling:
		return datatransfer.Cancelled
	case datatransfer.Failing:
		return datatransfer.Failed
	case datatransfer.Completing:
		return datatransfer.Completed
	}
	return s
}

// violation is the panic value used to abort a case with a keyed failure.
type violation struct {
	key string
	msg string
}

// chanCtx is the harness view of one channel.
type chanCtx struct {
	idx     int
	spec    chanSpec
	chid    datatransfer.ChannelID
	last    Vec // vector after the last synchronisation
	pubSeen int // number of publications consumed so far
	// C02
	final     bool
	finalVec  Vec
	finalRaw  []byte
	finalPubs int
}

// stepCtx is what an oracle sees for one action.
type stepCtx struct {
	h         *hist
	c         *chanCtx
	act       Act
	ret       error
	before    Vec
	rawBefore []byte
	entries   []PubEntry
	after     Vec
	rawAfter  []byte
	settled   bool // settle() was run and succeeded
	racing    bool // the action was injected without synchronising first
}

type oracle interface {
	step(s *stepCtx)
}

// hist is one generated history over 1..n channels.
type hist struct {
	t       *rapid.T
	rig     *fsmRig
	chans   []*chanCtx
	oracles []oracle
	log     []string
	nSteps  int
	reopens int
}

func (h *hist) fail(key string, format string, args ...any) {
	msg := fmt.Sprintf(format, args...)
	var b strings.Builder
	fmt.Fprintf(&b, "VIOLATION-KEY=%s %s\nhistory:\n", key, msg)
	for i, c := range h.chans {
		fmt.Fprintf(&b, "  c%d: %s\n", i, c.spec)
	}
	for _, l := range h.log {
		fmt.Fprintf(&b, "  %s\n", l)
	}
	h.t.Fatalf("%s", b.String())
}

func newHist(t *rapid.T, specs []chanSpec, oracles ...oracle) *hist {
	self := gen.Peer(0)
	h := &hist{t: t, rig: newFsmRig(t, self, dbl.NewRecDatastore()), oracles: oracles}
	for i, s := range specs {
		chid, err := h.rig.create(s)
		if err != nil {
			t.Fatalf("HARNESS CreateNew(%s): %v", s, err)
		}
		if chid != s.chid(self) {
			h.fail("C19/channel-id/create", "CreateNew returned %s, want %s", chidStr(chid), chidStr(s.chid(self)))
		}
		c := &chanCtx{idx: i, spec: s, chid: chid}
		st, err := h.rig.flush(chid)
		if err != nil {
			h.fail("C06/query-after-create", "GetByID after CreateNew(%s) failed: %v", s, err)
		}
		v, verr := vecOf(st)
		if verr != nil {
			h.fail("C19/accessor-panic", "%v on freshly created channel", verr)
		}
		c.last = v
		h.chans = append(h.chans, c)
	}
	return h
}

func (h *hist) close() {
	defer func() { recover() }()
	h.rig.stop(h.t)
}

func (h *hist) chids() []datatransfer.ChannelID {
	out := make([]datatransfer.ChannelID, len(h.chans))
	for i, c := range h.chans {
		out[i] = c.chid
	}
	return out
}

// apply calls the public method for the action.
func (h *hist) apply(a Act) error {
	chs := h.rig.chs
	chid := h.chans[a.Ch].chid
	k := gen.CidOf([]byte{byte(a.Index)})
	switch a.Kind {
	case "Open":
		return chs.Open(chid)
	case "Accept":
		return chs.Accept(chid)
	case "Opened":
		return chs.ChannelOpened(chid)
	case "TransferInitiated":
		return chs.TransferInitiated(chid)
	case "Restart":
		return chs.Restart(chid)
	case "CompleteCleanupOnRestart":
		return chs.CompleteCleanupOnRestart(chid)
	case "DataSent":
		return chs.DataSent(chid, k, a.Delta, a.Index, a.Unique)
	case "DataQueued":
		return chs.DataQueued(chid, k, a.Delta, a.Index, a.Unique)
	case "DataReceived":
		return chs.DataReceived(chid, k, a.Delta, a.Index, a.Unique)
	case "PauseInitiator":
		return chs.PauseInitiator(chid)
	case "PauseResponder":
		return chs.PauseResponder(chid)
	case "ResumeInitiator":
		return chs.ResumeInitiator(chid)
	case "ResumeResponder":
		return chs.ResumeResponder(chid)
	case "NewVoucher":
		return chs.NewVoucher(chid, a.V)
	case "NewVoucherResult":
		return chs.NewVoucherResult(chid, a.V)
	case "Complete":
		return chs.Complete(chid)
	case "FinishTransfer":
		return chs.FinishTransfer(chid)
	case "ResponderCompletes":
		return chs.ResponderCompletes(chid)
	case "ResponderBeginsFinalization":
		return chs.ResponderBeginsFinalization(chid)
	case "BeginFinalizing":
		return chs.BeginFinalizing(chid)
	case "Cancel":
		return chs.Cancel(chid)
	case "Error":
		return chs.Error(chid, errors.New(a.Msg))
	case "Disconnected":
		return chs.Disconnected(chid, errors.New(a.Msg))
	case "RequestCancelled":
		return chs.RequestCancelled(chid, errors.New(a.Msg))
	case "SendDataError":
		return chs.SendDataError(chid, errors.New(a.Msg))
	case "ReceiveDataError":
		return chs.ReceiveDataError(chid, errors.New(a.Msg))
	case "SetDataLimit":
		return chs.SetDataLimit(chid, a.Limit)
	case "SetRequiresFinalization":
		return chs.SetRequiresFinalization(chid, a.Flag)
	}
	h.t.Fatalf("HARNESS unknown action kind %q", a.Kind)
	return nil
}

// candidateCodes lists the FSM events an action may publish, in order.
func candidateCodes(a Act) []datatransfer.EventCode {
	code := kindToCode[a.Kind]
	switch a.Kind {
	case "DataSent":
		return []datatransfer.EventCode{datatransfer.DataSentProgress, code}
	case "DataQueued", "DataReceived":
		return []datatransfer.EventCode{progressOf[code], code, datatransfer.DataLimitExceeded}
	}
	return []datatransfer.EventCode{code}
}

// do applies one action, synchronises, gathers the publications and runs the oracles.
func (h *hist) do(a Act) *stepCtx {
	return h.doOpt(a, false)
}

// inject applies an action without synchronising (used to race with the cleanup goroutine).
func (h *hist) inject(a Act) error {
	h.log = append(h.log, fmt.Sprintf("%3d inject %s", h.nSteps, a))
	h.nSteps++
	return h.apply(a)
}

func (h *hist) doOpt(a Act, racing bool) *stepCtx {
	c := h.chans[a.Ch]
	s := &stepCtx{h: h, c: c, act: a, before: c.last, racing: racing}
	s.rawBefore = h.rig.ds.Raw(storeKey(c.chid))
	if a.Kind != "sync" {
		s.ret = h.apply(a)
	}
	h.finish(s)
	return s
}

// finish synchronises after an action (or a batch of injected actions) and runs the oracles.
func (h *hist) finish(s *stepCtx) {
	c := s.c
	st, err := h.rig.flush(c.chid)
	if err != nil {
		h.log = append(h.log, fmt.Sprintf("%3d %s -> ret=%v", h.nSteps, s.act, s.ret))
		h.fail("C06/query-failed", "GetByID(%s) failed after %s: %v", chidStr(c.chid), s.act, err)
	}
	if isCleanup(st.Status()) {
		st2, ok := h.rig.settle(c.chid)
		if !ok {
			h.log = append(h.log, fmt.Sprintf("%3d %s -> ret=%v", h.nSteps, s.act, s.ret))
			h.fail("C09/no-settle", "channel %s still %s %s after %s without further input", chidStr(c.chid), datatransfer.Statuses[st.Status()], watchdog, s.act)
		}
		st = st2
		s.settled = true
	}
	h.rig.fenceWait(h.t)
	all := h.rig.pub.entries(c.chid)
	s.entries = all[c.pubSeen:]
	c.pubSeen = len(all)
	v, verr := vecOf(st)
	s.after = v
	s.rawAfter = h.rig.ds.Raw(storeKey(c.chid))
	codes := make([]string, len(s.entries))
	for i, e := range s.entries {
		codes[i] = datatransfer.Events[e.Code]
	}
	h.log = append(h.log, fmt.Sprintf("%3d %s -> ret=%v events=%v state=%s", h.nSteps, s.act, s.ret, codes, v.Short()))
	h.nSteps++
	if verr != nil {
		h.fail("C19/accessor-panic", "%v (state after %s)", verr, s.act)
	}
	for _, e := range s.entries {
		if e.VecEr != nil {
			h.fail("C19/accessor-panic", "%v (snapshot published for %s)", e.VecEr, datatransfer.Events[e.Code])
		}
	}
	for _, o := range h.oracles {
		o.step(s)
	}
	c.last = v
}

// doReopen closes and reopens the channels instance on the same store.
func (h *hist) doReopen() {
	h.rig.reopen(h.t, h.chids())
	h.reopens++
	h.log = append(h.log, fmt.Sprintf("%3d reopen", h.nSteps))
	h.nSteps++
	for _, c := range h.chans {
		// a query on the new instance must show the same state (durability)
		st, err := h.rig.flush(c.chid)
		if err != nil {
			h.fail("C06/reopen-lost-channel", "GetByID(%s) after reopen: %v", chidStr(c.chid), err)
		}
		v, verr := vecOf(st)
		if verr != nil {
			h.fail("C19/accessor-panic", "%v (after reopen)", verr)
		}
		if v.Full() != c.last.Full() {
			h.fail("C06/reopen-state-differs", "state of %s after reopen differs:\n before %s\n after  %s", chidStr(c.chid), c.last.Full(), v.Full())
		}
		c.pubSeen = h.rig.pub.count(c.chid)
	}
}

// seqOf returns the expected subsequence check: every published code must be
// one of the candidate codes of the action (in order) or CleanupComplete.
func checkCodes(s *stepCtx) {
	if s.racing {
		return
	}
	cand := candidateCodes(s.act)
	i := 0
	for _, e := range s.entries {
		if e.Code == datatransfer.CleanupComplete {
			continue
		}
		for i < len(cand) && cand[i] != e.Code {
			i++
		}
		if i == len(cand) {
			s.h.fail("C17/unexpected-event", "event %s published after %s (candidates %v)", datatransfer.Events[e.Code], s.act, cand)
		}
		i++
	}
}

func sameBytes(a, b []byte) bool { return bytes.Equal(a, b) }
