package hx

import (
	"fmt"
	"testing"

	"pgregory.net/rapid"

	datatransfer "github.com/filecoin-project/go-data-transfer/v2"

	"verif/harness/stats"
)

// posTable is the generated traversal: position -> (size, block id).
type posTable struct {
	size  []uint64 // 1-based
	block []int
	first []bool // first occurrence of its block id
}

func drawTable(t *rapid.T, maxN int) posTable {
	n := rapid.IntRange(1, maxN).Draw(t, "positions")
	tb := posTable{size: make([]uint64, n+1), block: make([]int, n+1), first: make([]bool, n+1)}
	seen := map[int]bool{}
	sizeOf := map[int]uint64{}
	for i := 1; i <= n; i++ {
		b := i
		if i > 1 && rapid.IntRange(0, 3).Draw(t, "dup") == 0 {
			b = tb.block[rapid.IntRange(1, i-1).Draw(t, "dupOf")]
		}
		tb.block[i] = b
		if !seen[b] {
			seen[b] = true
			tb.first[i] = true
			sizeOf[b] = uint64(rapid.IntRange(1, 4000).Draw(t, "size"))
		}
		tb.size[i] = sizeOf[b]
	}
	return tb
}

func (tb posTable) n() int { return len(tb.size) - 1 }

// ongoing drives channel ch to Ongoing.
func ongoing(h *hist, ch int) {
	h.do(Act{Kind: "Open", Ch: ch})
	h.do(Act{Kind: "Accept", Ch: ch})
	h.do(Act{Kind: "TransferInitiated", Ch: ch})
	if h.chans[ch].last.Status != datatransfer.Ongoing {
		h.fail("HARNESS/not-ongoing", "could not reach Ongoing: %s", h.chans[ch].last.Short())
	}
}

// TestC07_Fsmx: run-structured block reports (replays, duplicates, restarts,
// reopen between reports) against the reference accumulator.
func TestC07_Fsmx(t *testing.T) {
	sp := stats.For("C07")
	sp.SetRule("fsmx: a position table (<=30 positions, sizes 1..4000, duplicate block ids) is reported in 1..4 runs as a transport would (receiver: positions 1..cut with the already-held prefix and duplicate blocks flagged non-unique; sender: first-occurrence positions after the skip count, queued then sent), with reopen between reports; reference accumulator counts a report iff unique and above every counted position. A second test feeds arbitrary (index,size,unique) triples for monotonicity only; racex reports concurrently. Non-trivial: >=1 replayed position and >=1 non-unique report; distinct by (side, table, run cuts)")
	rapid.Check(t, func(t *rapid.T) {
		spec := drawSpec(t, 0, false)
		acct := newOAcct(true, false)
		h := newHist(t, []chanSpec{spec}, acct, oMono{}, oFrame{})
		defer h.close()
		ongoing(h, 0)
		tb := drawTable(t, 30)
		sender := dataKinds(spec)[0] == "DataQueued"
		runs := rapid.IntRange(1, 4).Draw(t, "runs")
		var cuts []int
		maybeReopen := func() {
			if rapid.IntRange(0, 14).Draw(t, "reopen?") == 0 {
				h.doReopen()
			}
		}
		statusMoved := false
		for r := 0; r < runs; r++ {
			cut := rapid.IntRange(1, tb.n()).Draw(t, "cut")
			cuts = append(cuts, cut)
			if sender {
				skip := 0
				if r > 0 {
					skip = rapid.IntRange(0, int(h.chans[0].last.QueuedIdx)).Draw(t, "skip")
				}
				sentLag := rapid.IntRange(0, 3).Draw(t, "sentLag")
				var queued []int
				for p := skip + 1; p <= cut; p++ {
					if !tb.first[p] {
						continue // never put on the wire, the transport does not report it
					}
					h.do(Act{Kind: "DataQueued", Index: int64(p), Delta: tb.size[p], Unique: true})
					queued = append(queued, p)
					maybeReopen()
					if len(queued) > sentLag {
						q := queued[len(queued)-1-sentLag]
						h.do(Act{Kind: "DataSent", Index: int64(q), Delta: tb.size[q], Unique: true})
					}
				}
			} else {
				skip := int(h.chans[0].last.ReceivedIdx) // what the real restart path sends as do-not-send-first-blocks
				for p := 1; p <= cut; p++ {
					unique := p > skip && tb.first[p]
					h.do(Act{Kind: "DataReceived", Index: int64(p), Delta: tb.size[p], Unique: unique})
					maybeReopen()
				}
			}
			// the initiator may learn that the responder is done while blocks still arrive (still a transferring status)
			if spec.SelfInitiator && !statusMoved && rapid.IntRange(0, 4).Draw(t, "respCompletes") == 0 {
				// both are still transferring statuses for the initiator
				h.do(Act{Kind: rapid.SampledFrom([]string{"ResponderCompletes", "ResponderBeginsFinalization"}).Draw(t, "responderWord")})
				statusMoved = true
			}
		}
		sp.Eval()
		if acct.replayed > 0 && acct.nonUnique > 0 {
			fp := stats.FP(sender, fmt.Sprint(tb.size), fmt.Sprint(tb.block), fmt.Sprint(cuts))
			sp.Nontrivial(fp)
			sp.Sample(fp, map[string]any{"engine": "fsmx", "channel": spec.String(), "table_sizes": tb.size[1:], "table_blocks": tb.block[1:], "history": h.log})
		}
		if acct.replayed > 0 {
			sp.Class("has_replayed_position")
		}
		if acct.nonUnique > 0 {
			sp.Class("has_non_unique_report")
		}
		if h.reopens > 0 {
			sp.Class("reopen_between_reports")
		}
		if sender {
			sp.Class("sender_side")
		} else {
			sp.Class("receiver_side")
		}
	})
}

// TestC07_FsmxArbitrary: arbitrary triples in arbitrary statuses; only the
// weak invariants (monotone, no increase on replays / non-unique, totality).
func TestC07_FsmxArbitrary(t *testing.T) {
	sp := stats.For("C07")
	rapid.Check(t, func(t *rapid.T) {
		spec := drawSpec(t, 0, false)
		acct := newOAcct(false, false)
		h := newHist(t, []chanSpec{spec}, acct, oMono{}, oFrame{})
		defer h.close()
		reach(t, h, 0)
		n := rapid.IntRange(1, 40).Draw(t, "n")
		for i := 0; i < n && !isTerminal(h.chans[0].last.Status); i++ {
			if rapid.IntRange(0, 19).Draw(t, "reopen?") == 0 {
				h.doReopen()
				continue
			}
			a := Act{Kind: rapid.SampledFrom([]string{"DataQueued", "DataSent", "DataReceived"}).Draw(t, "kind"),
				Index:  int64(rapid.IntRange(-2, 25).Draw(t, "idx")),
				Delta:  uint64(rapid.IntRange(0, 3000).Draw(t, "size")),
				Unique: rapid.Bool().Draw(t, "unique")}
			h.do(a)
		}
		sp.Eval()
		if acct.replayed > 0 && acct.nonUnique > 0 {
			sp.Nontrivial(stats.FP("arbitrary", h.log))
		}
		sp.Class("arbitrary_triples")
	})
}

// TestC08_Fsmx: data limits on a responder channel.
func TestC08_Fsmx(t *testing.T) {
	sp := stats.For("C08")
	sp.SetRule("fsmx: responder channel in Ongoing (pull: queued is limited, push: received), block sizes drawn first, initial limit and later SetDataLimit values biased to the partial sums of the sizes (-1, +0, +1), 0 and huge; reports are new positions with some replays; reopen between steps. Oracle: a report returns the pause signal iff limit != 0, it advanced the total and total >= limit; then DataLimitExceeded with the responder paused. mgrx: same through OnDataQueued/OnDataReceived and UpdateValidationStatus (resume rule, messages, transport calls). Non-trivial: limit != 0 and the total crosses it; distinct by (direction, sizes, limit schedule)")
	rapid.Check(t, func(t *rapid.T) {
		spec := drawSpec(t, 0, false)
		spec.SelfInitiator = false
		acct := newOAcct(true, true)
		h := newHist(t, []chanSpec{spec}, acct, oMono{}, oFrame{}, newOPause())
		defer h.close()
		ongoing(h, 0)
		n := rapid.IntRange(1, 20).Draw(t, "blocks")
		sizes := make([]uint64, n)
		sums := make([]uint64, n)
		var sum uint64
		for i := range sizes {
			sizes[i] = uint64(rapid.IntRange(1, 3000).Draw(t, "size"))
			sum += sizes[i]
			sums[i] = sum
		}
		drawLimit := func(label string) uint64 {
			switch rapid.IntRange(0, 6).Draw(t, label+"Kind") {
			case 0:
				return 0
			case 1:
				return sum * 10
			default:
				s := sums[rapid.IntRange(0, n-1).Draw(t, label+"At")]
				d := rapid.IntRange(-1, 1).Draw(t, label+"Delta")
				if d < 0 && s > 0 {
					return s - 1
				}
				return s + uint64(d)
			}
		}
		var schedule []uint64
		l0 := drawLimit("l0")
		schedule = append(schedule, l0)
		if l0 != 0 || rapid.Bool().Draw(t, "setZero") {
			h.do(Act{Kind: "SetDataLimit", Limit: l0})
		}
		kind := limitedKind(spec.Pull)
		sentLag := rapid.IntRange(0, 3).Draw(t, "sentLag")
		for i := 0; i < n; i++ {
			for nb := rapid.IntRange(1, 2).Draw(t, "betweenActions"); nb > 0; nb-- {
				switch rapid.IntRange(0, 9).Draw(t, "between") {
				case 0:
					h.doReopen()
				case 1, 2:
					l := drawLimit("raise")
					schedule = append(schedule, l)
					h.do(Act{Kind: "SetDataLimit", Limit: l})
					if rapid.Bool().Draw(t, "resume") {
						h.do(Act{Kind: "ResumeResponder"})
					}
				case 3:
					if i > 0 { // replay of an earlier position
						p := rapid.IntRange(0, i-1).Draw(t, "replayPos")
						h.do(Act{Kind: kind, Index: int64(p + 1), Delta: sizes[p], Unique: true})
					}
				}
			}
			h.do(Act{Kind: kind, Index: int64(i + 1), Delta: sizes[i], Unique: true})
			if spec.Pull && i >= sentLag {
				// what went out on the wire trails what was queued (the limit is about the queued total)
				h.do(Act{Kind: "DataSent", Index: int64(i + 1 - sentLag), Delta: sizes[i-sentLag], Unique: true})
			}
		}
		sp.Eval()
		if acct.pauses > 0 {
			fp := stats.FP(spec.Pull, fmt.Sprint(sizes), fmt.Sprint(schedule))
			sp.Nontrivial(fp)
			sp.Sample(fp, map[string]any{"engine": "fsmx", "channel": spec.String(), "sizes": sizes, "limit_schedule": schedule, "history": h.log})
			sp.Class("total_crossed_limit")
		}
		if acct.pausesExact > 0 {
			sp.Class("total_exactly_equal_to_limit")
		}
		if h.reopens > 0 {
			sp.Class("with_reopen")
		}
		if len(schedule) > 1 {
			sp.Class("limit_raised")
		}
	})
}
