package hx

import (
	"context"
	"errors"
	"fmt"
	"strings"
	"testing"
	"time"

	"github.com/ipfs/go-graphsync"
	"github.com/ipfs/go-graphsync/donotsendfirstblocks"
	"github.com/ipld/go-ipld-prime/node/basicnode"
	"github.com/libp2p/go-libp2p/core/peer"
	"pgregory.net/rapid"

	datatransfer "github.com/filecoin-project/go-data-transfer/v2"
	"github.com/filecoin-project/go-data-transfer/v2/message"
	gstransport "github.com/filecoin-project/go-data-transfer/v2/transport/graphsync"
	"github.com/filecoin-project/go-data-transfer/v2/transport/graphsync/extension"

	"verif/harness/dbl"
	"verif/harness/gen"
	"verif/harness/stats"
)

// gsRig is the real graphsync transport over the graphsync double and a recording events handler.
type gsRig struct {
	self peer.ID
	gs   *dbl.GS
	ev   *dbl.Events
	tr   *gstransport.Transport
}

func newGsRig(t fataler) *gsRig {
	r := &gsRig{self: gen.Peer(0), gs: dbl.NewGS(), ev: dbl.NewEvents()}
	r.tr = gstransport.NewTransport(r.self, r.gs)
	if err := r.tr.SetEventHandler(r.ev); err != nil {
		t.Fatalf("HARNESS SetEventHandler: %v", err)
	}
	return r
}

// waitEv waits until the events log has at least n entries.
func (r *gsRig) waitEv(n int) bool {
	deadline := time.Now().Add(watchdog)
	for r.ev.Len() < n {
		if time.Now().After(deadline) {
			return false
		}
		time.Sleep(20 * time.Microsecond)
	}
	return true
}

// gch is the model of one data-transfer channel at the transport.
type gch struct {
	idx     int
	role    string
	other   peer.ID
	tid     datatransfer.TransferID
	chid    datatransfer.ChannelID
	tracked bool
	current *graphsync.RequestID
	// requester side: the graphsync request made through Request that is still open
	liveReq    *graphsync.RequestID
	reqCancel  bool
	pending    []string // queued messages (observables)
	store      bool
	everOpened bool
}

func (c *gch) requester() bool { return c.role == "createPull" || c.role == "receivePush" }

func chidFor(self peer.ID, role string, other peer.ID, tid datatransfer.TransferID) datatransfer.ChannelID {
	if role == "createPull" || role == "createPush" {
		return datatransfer.ChannelID{Initiator: self, Responder: other, ID: tid}
	}
	return datatransfer.ChannelID{Initiator: other, Responder: self, ID: tid}
}

// openMsg is the message that travels with the graphsync request of the channel.
func (c *gch) openMsg(restart bool) datatransfer.Message {
	v := datatransfer.TypedVoucher{Type: "T/a", Voucher: basicnode.NewString("v")}
	switch c.role {
	case "createPull", "receivePull":
		return newRequestMsg(c.tid, restart, true, v, simpleCid(1), strNode("sel"))
	default:
		var m datatransfer.Response
		if restart {
			m, _ = message.RestartResponse(c.tid, true, false, nil)
		} else {
			m, _ = message.NewResponse(c.tid, true, false, nil)
		}
		return m
	}
}

func extsOf(msg datatransfer.Message, names ...graphsync.ExtensionName) map[graphsync.ExtensionName]interface{} {
	return nil
}

func msgKey(m datatransfer.Message) string {
	if m == nil {
		return "<nil>"
	}
	return gen.EncHex(m.ToIPLD())
}

type gsModel struct {
	t       *rapid.T
	r       *gsRig
	chans   []*gch
	owner   map[graphsync.RequestID]*gch
	log     []string
	allReqs []graphsync.RequestID
	// statistics
	liveTogether  bool
	afterCleanup  int
	unknownProbes int
}

func (m *gsModel) fail(key, format string, args ...any) {
	mfail(m.t, m.log, key, format, args...)
}

func (m *gsModel) logf(format string, args ...any) {
	m.log = append(m.log, fmt.Sprintf(format, args...))
}

// expect compares the events recorded since n0 with the expected (kind, channel) list.
func (m *gsModel) expect(n0 int, what string, want ...dbl.EvCall) []dbl.EvCall {
	if !m.r.waitEv(n0 + len(want)) {
		m.fail("C16/event-missing", "%s: %d event(s) expected, %d recorded", what, len(want), m.r.ev.Len()-n0)
	}
	got := m.r.ev.Since(n0)
	if len(got) != len(want) {
		var gs []string
		for _, g := range got {
			gs = append(gs, fmt.Sprintf("%s@%s", g.Kind, chidStr(g.Chid)))
		}
		m.fail("C16/event-count", "%s: expected %d channel event(s), got %v", what, len(want), gs)
	}
	for i := range want {
		if got[i].Kind != want[i].Kind || got[i].Chid != want[i].Chid {
			m.fail("C16/wrong-channel", "%s: event %s reported for channel %s, want %s for %s", what, got[i].Kind, chidStr(got[i].Chid), want[i].Kind, chidStr(want[i].Chid))
		}
	}
	return got
}

func (m *gsModel) liveCount() int {
	n := 0
	for _, c := range m.chans {
		has := false
		for _, o := range m.owner {
			if o == c {
				has = true
			}
		}
		if has {
			n++
		}
	}
	return n
}

func hasExt(exts []graphsync.ExtensionData, name graphsync.ExtensionName) (graphsync.ExtensionData, bool) {
	for _, e := range exts {
		if e.Name == name {
			return e, true
		}
	}
	return graphsync.ExtensionData{}, false
}

// opOpen: OpenChannel on a requester-side channel (new or restart).
func (m *gsModel) opOpen(c *gch, received int64) {
	restart := c.everOpened
	msg := c.openMsg(restart)
	var st datatransfer.ChannelState
	if restart {
		st = stubState{chid: c.chid, received: received}
	}
	g0, e0 := m.r.gs.Len(), m.r.ev.Len()
	prev := c.current
	prevLive := c.liveReq
	m.logf("OpenChannel(%s) restart=%v received=%d", chidStr(c.chid), restart, received)
	ctx, cancel := wctx()
	err := m.r.tr.OpenChannel(ctx, c.other, c.chid, linkOf(simpleCid(1)), strNode("sel"), st, msg)
	cancel()
	if err != nil {
		m.fail("C10/open-failed", "OpenChannel(%s): %v", chidStr(c.chid), err)
	}
	calls := m.r.gs.Since(g0)
	var req *dbl.GSCall
	cancelSeq, reqSeq := int64(-1), int64(-1)
	for i := range calls {
		switch calls[i].Kind {
		case "request":
			req = &calls[i]
			reqSeq = calls[i].Seq
		case "cancel":
			if prev == nil || calls[i].ID != *prev {
				m.fail("C16/cancel-wrong-request", "restart cancelled request %s, the channel's current request is %v", calls[i].ID, prev)
			}
			cancelSeq = calls[i].Seq
		}
	}
	if req == nil || req.Peer != c.other {
		m.fail("C10/no-request", "OpenChannel made no graphsync request to the data sender")
	}
	if prev != nil && !c.reqCancel {
		if cancelSeq < 0 || cancelSeq > reqSeq {
			m.fail("C10/previous-request-not-cancelled", "the previous request %s was not cancelled before the new one started", *prev)
		}
	}
	// extensions: the message, and on restart the number of blocks to skip
	dt, ok := hasExt(req.Exts, extension.ExtensionDataTransfer1_1)
	if !ok || gen.EncHex(dt.Data) != msgKey(msg) {
		m.fail("C12/extension-content", "graphsync request does not carry the data-transfer message")
	}
	skip, hasSkip := hasExt(req.Exts, graphsync.ExtensionsDoNotSendFirstBlocks)
	if restart {
		if !hasSkip {
			m.fail("C10/skip-count", "restart request carries no do-not-send-first-blocks extension")
		}
		n, derr := donotsendfirstblocks.DecodeDoNotSendFirstBlocks(skip.Data)
		if derr != nil || n != received {
			m.fail("C10/skip-count", "restart tells the sender to skip %d blocks, the channel has recorded %d received", n, received)
		}
	} else if hasSkip {
		m.fail("C10/skip-count", "a new request carries a do-not-send-first-blocks extension")
	}
	want := []dbl.EvCall{}
	if prevLive != nil && prev != nil {
		want = append(want, dbl.EvCall{Kind: "cancelled", Chid: c.chid})
	}
	want = append(want, dbl.EvCall{Kind: "opened", Chid: c.chid})
	m.expect(e0, "OpenChannel", want...)
	acts := m.r.gs.LastOutgoingActions
	wantStore := "data-transfer-" + c.chid.String()
	if c.store != (len(acts.Persistence) == 1 && acts.Persistence[0] == wantStore) {
		m.fail("C16/store-selection", "outgoing request uses persistence %v, channel store registered=%v", acts.Persistence, c.store)
	}
	id := req.ID
	m.allReqs = append(m.allReqs, id)
	c.current, c.liveReq = &id, &id
	c.tracked, c.everOpened, c.reqCancel = true, true, false
	m.owner[id] = c
}

// stubState is the part of a channel state the transport reads on restart.
type stubState struct {
	datatransfer.ChannelState
	chid     datatransfer.ChannelID
	received int64
}

func (s stubState) ChannelID() datatransfer.ChannelID { return s.chid }
func (s stubState) ReceivedCidsTotal() int64          { return s.received }

// opIncoming: the incoming-request hook for a responder-side channel.
func (m *gsModel) opIncoming(c *gch, withExt bool, wrongRoleMsg bool) {
	id := graphsync.NewRequestID()
	msg := c.openMsg(c.everOpened)
	exts := map[graphsync.ExtensionName]interface{}{}
	_ = exts
	rd := &dbl.ReqData{RID: id, RootCid: simpleCid(1), Sel: strNode("sel"), Typ: graphsync.RequestTypeNew}
	if withExt {
		rd.Exts = dbl.ExtMap([]graphsync.ExtensionData{{Name: extension.ExtensionDataTransfer1_1, Data: msg.ToIPLD()}})
	}
	acts := &dbl.InReqActions{}
	e0 := m.r.ev.Len()
	m.logf("incoming graphsync request %s from %s for %s (dt extension=%v)", id, gen.PeerName(c.other), chidStr(c.chid), withExt)
	m.r.gs.IncomingRequestHook(c.other, rd, acts)
	if !withExt {
		m.expect(e0, "incoming request without a data-transfer extension")
		if len(acts.Terminated)+acts.Validated+acts.Paused != 0 {
			m.fail("C16/foreign-request-touched", "a graphsync request without data-transfer extension was acted upon")
		}
		return
	}
	kind := "request"
	if !msg.IsRequest() {
		kind = "response"
	}
	got := m.expect(e0, "incoming request hook", dbl.EvCall{Kind: kind, Chid: c.chid})
	if msgKey(got[0].Msg) != msgKey(msg) {
		m.fail("C16/message-altered", "the handler received a different message than the request carried")
	}
	if len(acts.Terminated) != 0 || acts.Validated != 1 {
		m.fail("C16/incoming-request-actions", "accepted incoming request: terminated=%v validated=%d", acts.Terminated, acts.Validated)
	}
	wantStore := "data-transfer-" + c.chid.String()
	if c.store != (len(acts.Persistence) == 1 && acts.Persistence[0] == wantStore) {
		m.fail("C16/store-selection", "incoming request uses persistence %v, channel store registered=%v", acts.Persistence, c.store)
	}
	// messages queued while the requester was away are delivered now, once
	var sent []string
	for _, e := range acts.SentExts {
		sent = append(sent, gen.EncHex(e.Data))
	}
	if strings.Join(sent, ",") != strings.Join(c.pending, ",") {
		m.fail("C10/pending-extensions", "incoming request after the requester came back got %d queued message(s), %d were queued", len(sent), len(c.pending))
	}
	c.pending, c.reqCancel = nil, false
	c.current = &id
	c.tracked, c.everOpened = true, true
	m.owner[id] = c
}

func (m *gsModel) anyReq(label string) (graphsync.RequestID, *gch) {
	var ids []graphsync.RequestID
	for id := range m.owner {
		ids = append(ids, id)
	}
	if len(ids) == 0 || rapid.IntRange(0, 7).Draw(m.t, label+".unknown") == 0 {
		m.unknownProbes++
		return graphsync.NewRequestID(), nil
	}
	// deterministic order for replay
	sortIDs(ids)
	id := ids[rapid.IntRange(0, len(ids)-1).Draw(m.t, label)]
	return id, m.owner[id]
}

func sortIDs(ids []graphsync.RequestID) {
	for i := 1; i < len(ids); i++ {
		for j := i; j > 0 && ids[j].String() < ids[j-1].String(); j-- {
			ids[j], ids[j-1] = ids[j-1], ids[j]
		}
	}
}

// TestC16_Gsx: graphsync callback sequences over several channels and requests.
func TestC16_Gsx(t *testing.T) {
	sp := stats.For("C16")
	sp.SetRule("gsx: the real graphsync transport over a graphsync double; 2..4 channels (distinct peers, four roles, some sharing a transfer id across peers), up to 3 requests per channel; 5..60 actions from {OpenChannel new/restart, incoming-request hook (with / without data-transfer extension), processing listeners, outgoing-block / block-sent / incoming-block hooks on-wire or not, incoming-response / request-updated hooks, completed-response listener with every status code, requestor-cancelled, network send error, receiver network error per peer, Pause / Resume / Close / Cleanup / UseStore}, also with unknown request ids and after cleanup. Oracle: model request id -> channel (set on request opened / received, cleared by cleanup); every recorded handler invocation names the owning channel with the id built from the hook's peer; nothing for unknown ids / missing extension / cleaned channels; off-wire blocks produce no queued / sent accounting; received blocks unique iff on the wire; gs.Pause/Unpause/Cancel target the channel's current request; completion reported once with nil error iff completed-full, never for cancelled; per-channel store registered from UseStore until cleanup and selected by the hooks exactly then. Non-trivial: >=2 channels with live requests at the same time and >=1 callback after a cleanup; distinct by the action-kind sequence")
	rapid.Check(t, func(t *rapid.T) {
		r := newGsRig(t)
		m := &gsModel{t: t, r: r, owner: map[graphsync.RequestID]*gch{}}
		defer func() {
			// end all requester-side requests so that no goroutine outlives the case
			for _, id := range m.allReqs {
				r.gs.Complete(id, nil)
			}
		}()
		nch := rapid.IntRange(2, 4).Draw(t, "channels")
		usedChid := map[datatransfer.ChannelID]bool{}
		for i := 0; i < nch; i++ {
			c := &gch{idx: i, role: rapid.SampledFrom(roles).Draw(t, "role"), other: gen.Peer(1 + rapid.IntRange(0, 2).Draw(t, "peer")), tid: datatransfer.TransferID(10 + rapid.IntRange(0, 1).Draw(t, "tid"))}
			c.chid = chidFor(r.self, c.role, c.other, c.tid)
			if usedChid[c.chid] {
				continue
			}
			usedChid[c.chid] = true
			m.chans = append(m.chans, c)
			m.logf("channel c%d: %s %s", len(m.chans)-1, c.role, chidStr(c.chid))
		}
		n := rapid.IntRange(5, 60).Draw(t, "n")
		var kinds []string
		received := map[int]int64{}
		for step := 0; step < n; step++ {
			act := rapid.SampledFrom([]string{"open", "open", "incoming", "incoming", "incoming-noext", "processing", "out-block", "out-block", "block-sent", "in-block", "in-block", "response", "updated", "completed", "req-cancelled", "send-error", "recv-error", "pause", "resume", "close", "cleanup", "use-store", "finish-request"}).Draw(t, "act")
			kinds = append(kinds, act)
			c := m.chans[rapid.IntRange(0, len(m.chans)-1).Draw(t, "ch")]
			e0, g0 := r.ev.Len(), r.gs.Len()
			switch act {
			case "open":
				if !c.requester() || len(reqsOf(m, c)) >= 3 {
					continue
				}
				m.opOpen(c, received[c.idx])
			case "incoming", "incoming-noext":
				if c.requester() || len(reqsOf(m, c)) >= 3 {
					continue
				}
				m.opIncoming(c, act == "incoming", false)
			case "finish-request":
				// a requester-side request ends (success or error)
				if c.liveReq == nil {
					continue
				}
				var ferr error
				if rapid.Bool().Draw(t, "finishWithError") {
					ferr = errors.New("graphsync failed")
				}
				m.logf("graphsync request %s of %s ends with %v", *c.liveReq, chidStr(c.chid), ferr)
				r.gs.Complete(*c.liveReq, ferr)
				_, still := m.owner[*c.liveReq]
				c.liveReq = nil
				if still {
					got := m.expect(e0, "request finished", dbl.EvCall{Kind: "completed", Chid: c.chid})
					if (got[0].Err == nil) != (ferr == nil) {
						m.fail("C16/completion-error", "request ended with %v but completion was reported with %v", ferr, got[0].Err)
					}
				} else {
					// the channel was cleaned up: the transport still reports through the channel id it remembered
					r.waitEv(e0 + 1)
				}
			case "processing":
				id, o := m.anyReq("req")
				rd := &dbl.ReqData{RID: id}
				m.logf("processing listener for %s", id)
				if o != nil && o.requester() {
					r.gs.OutgoingProcessingListener(o.other, rd, 1)
				} else if o != nil {
					r.gs.IncomingProcessingListener(o.other, rd, 1)
				} else {
					r.gs.IncomingProcessingListener(gen.Peer(1), rd, 1)
				}
				if o != nil {
					m.expect(e0, "processing listener", dbl.EvCall{Kind: "initiated", Chid: o.chid})
				} else {
					m.expect(e0, "processing listener for an unknown request")
				}
			case "out-block", "block-sent", "in-block":
				id, o := m.anyReq("req")
				onWire := rapid.IntRange(0, 2).Draw(t, "onWire") != 0
				idx := int64(rapid.IntRange(1, 20).Draw(t, "index"))
				b := &dbl.BlkData{L: linkOf(simpleCid(int(idx))), Size: 100, Idx: idx}
				if onWire {
					b.OnWire = 100
				}
				p := gen.Peer(1)
				if o != nil {
					p = o.other
				}
				m.logf("%s for %s index=%d onWire=%v", act, id, idx, onWire)
				switch act {
				case "out-block":
					a := &dbl.OutBlockActions{}
					r.gs.OutgoingBlockHook(p, &dbl.ReqData{RID: id}, b, a)
					if o != nil && onWire {
						got := m.expect(e0, "outgoing block", dbl.EvCall{Kind: "data-queued", Chid: o.chid})
						if got[0].Index != idx || got[0].Size != 100 || !got[0].Unique {
							m.fail("C07/queued-report", "queued report index=%d size=%d unique=%v", got[0].Index, got[0].Size, got[0].Unique)
						}
					} else {
						m.expect(e0, "outgoing block (off wire or unknown request)")
					}
					if len(a.Terminated) != 0 || a.Paused != 0 {
						m.fail("C16/block-hook-actions", "outgoing block hook acted on the response although the handler returned nil")
					}
				case "block-sent":
					r.gs.BlockSentListener(p, &dbl.ReqData{RID: id}, b)
					if o != nil && onWire {
						m.expect(e0, "block sent", dbl.EvCall{Kind: "data-sent", Chid: o.chid})
					} else {
						m.expect(e0, "block sent (off wire or unknown request)")
					}
				case "in-block":
					a := &dbl.InBlockActions{}
					r.gs.IncomingBlockHook(p, &dbl.RespData{RID: id}, b, a)
					if o != nil {
						got := m.expect(e0, "incoming block", dbl.EvCall{Kind: "data-received", Chid: o.chid})
						if got[0].Unique != onWire || got[0].Index != idx {
							m.fail("C07/received-unique-flag", "received block on wire=%v reported unique=%v", onWire, got[0].Unique)
						}
						if idx > received[o.idx] {
							received[o.idx] = idx
						}
					} else {
						m.expect(e0, "incoming block for an unknown request")
					}
				}
			case "response", "updated":
				id, o := m.anyReq("req")
				// a message of a kind chosen independently of the channel's role
				asRequest := rapid.Bool().Draw(t, "msgIsRequest")
				tid := datatransfer.TransferID(10 + rapid.IntRange(0, 1).Draw(t, "msgTid"))
				var msg datatransfer.Message
				if asRequest {
					msg = message.UpdateRequest(tid, rapid.Bool().Draw(t, "paused"))
				} else {
					msg = message.UpdateResponse(tid, rapid.Bool().Draw(t, "paused"))
				}
				name := extension.ExtensionDataTransfer1_1
				if act == "response" {
					name = rapid.SampledFrom([]graphsync.ExtensionName{extension.ExtensionIncomingRequest1_1, extension.ExtensionDataTransfer1_1, extension.ExtensionOutgoingBlock1_1}).Draw(t, "extName")
				}
				p := gen.Peer(1 + rapid.IntRange(0, 2).Draw(t, "fromPeer"))
				if o != nil && rapid.IntRange(0, 3).Draw(t, "fromOwnerPeer") != 0 {
					p = o.other
				}
				exts := dbl.ExtMap([]graphsync.ExtensionData{{Name: name, Data: msg.ToIPLD()}})
				m.logf("%s hook for %s from %s carrying %s tid=%d in %s", act, id, gen.PeerName(p), map[bool]string{true: "request", false: "response"}[asRequest], tid, name)
				var terminated []error
				if act == "response" {
					a := &dbl.InRespActions{}
					r.gs.IncomingResponseHook(p, &dbl.RespData{RID: id, Exts: exts}, a)
					terminated = a.Terminated
				} else {
					a := &dbl.ReqUpdatedActions{}
					r.gs.RequestUpdatedHook(p, &dbl.ReqData{RID: id}, &dbl.ReqData{RID: id, Exts: exts, Typ: graphsync.RequestTypeUpdate}, a)
					terminated = a.Terminated
				}
				if o == nil {
					m.expect(e0, act+" hook for an unknown request")
					if len(terminated) != 0 {
						m.fail("C16/unknown-request-terminated", "hook for an unknown request terminated something")
					}
					continue
				}
				// the message must come from the channel's counterparty in its role
				var derived datatransfer.ChannelID
				if asRequest {
					derived = datatransfer.ChannelID{Initiator: p, Responder: r.self, ID: tid}
				} else {
					derived = datatransfer.ChannelID{Initiator: r.self, Responder: p, ID: tid}
				}
				if derived == o.chid {
					kind := "response"
					if asRequest {
						kind = "request"
					}
					m.expect(e0, act+" hook", dbl.EvCall{Kind: kind, Chid: o.chid})
					if len(terminated) != 0 {
						m.fail("C16/hook-terminated", "%s hook terminated although the handler returned nil: %v", act, terminated)
					}
				} else {
					m.expect(e0, act+" hook with a message that does not belong to the request's channel")
					if len(terminated) == 0 {
						m.fail("C05/role-confused-extension", "a %s for %s arrived on the graphsync request of %s and was not refused", map[bool]string{true: "request", false: "response"}[asRequest], chidStr(derived), chidStr(o.chid))
					}
				}
			case "completed":
				id, o := m.anyReq("req")
				status := rapid.SampledFrom([]graphsync.ResponseStatusCode{graphsync.RequestCompletedFull, graphsync.RequestCompletedPartial, graphsync.RequestFailedUnknown, graphsync.RequestFailedContentNotFound, graphsync.RequestRejected, graphsync.RequestCancelled, graphsync.RequestFailedBusy}).Draw(t, "status")
				p := gen.Peer(1)
				if o != nil {
					p = o.other
				}
				m.logf("completed-response listener for %s status=%d", id, status)
				r.gs.CompletedResponseListener(p, &dbl.ReqData{RID: id}, status)
				if o == nil || status == graphsync.RequestCancelled {
					m.expect(e0, "completed listener (unknown request or cancelled)")
					continue
				}
				got := m.expect(e0, "completed listener", dbl.EvCall{Kind: "completed", Chid: o.chid})
				if (got[0].Err == nil) != (status == graphsync.RequestCompletedFull) {
					m.fail("C16/completion-error", "response status %d reported as completion error %v", status, got[0].Err)
				}
			case "req-cancelled":
				id, o := m.anyReq("req")
				if o != nil && o.requester() {
					continue // graphsync reports requestor cancellation on the responding side only
				}
				p := gen.Peer(1)
				if o != nil {
					p = o.other
				}
				m.logf("requestor-cancelled listener for %s", id)
				r.gs.RequestorCancelledListener(p, &dbl.ReqData{RID: id})
				m.expect(e0, "requestor cancelled")
				if o != nil && o.tracked {
					o.reqCancel = true
				}
			case "send-error":
				id, o := m.anyReq("req")
				p := gen.Peer(1)
				if o != nil {
					p = o.other
				}
				m.logf("network send error for %s", id)
				r.gs.NetworkErrorListener(p, &dbl.ReqData{RID: id}, errors.New("net"))
				if o != nil {
					m.expect(e0, "network send error", dbl.EvCall{Kind: "send-error", Chid: o.chid})
				} else {
					m.expect(e0, "network send error for an unknown request")
				}
			case "recv-error":
				p := gen.Peer(1 + rapid.IntRange(0, 3).Draw(t, "errPeer"))
				m.logf("receiver network error for peer %s", gen.PeerName(p))
				r.gs.ReceiverErrorListener(p, errors.New("net"))
				wantN := 0
				for _, o := range m.owner {
					if o.chid.Initiator == p || o.chid.Responder == p {
						wantN++
					}
				}
				if !r.waitEv(e0 + wantN) {
					m.fail("C16/event-missing", "receiver error for %s: %d events expected", gen.PeerName(p), wantN)
				}
				got := r.ev.Since(e0)
				if len(got) != wantN {
					m.fail("C16/event-count", "receiver error for %s: %d events, %d requests of that peer are mapped", gen.PeerName(p), len(got), wantN)
				}
				for _, g := range got {
					if g.Kind != "receive-error" || (g.Chid.Initiator != p && g.Chid.Responder != p) {
						m.fail("C16/wrong-channel", "receiver error for %s reported as %s on %s", gen.PeerName(p), g.Kind, chidStr(g.Chid))
					}
				}
			case "pause", "resume", "close":
				m.logf("%sChannel(%s) tracked=%v current=%v requesterCancelled=%v", act, chidStr(c.chid), c.tracked, c.current != nil, c.reqCancel)
				ctx, cancel := context.WithCancel(context.Background())
				done := make(chan error, 1)
				var umsg datatransfer.Message
				if c.role == "createPull" || c.role == "createPush" {
					umsg = message.UpdateRequest(c.tid, false)
				} else {
					umsg = message.UpdateResponse(c.tid, false)
				}
				go func() {
					switch act {
					case "pause":
						done <- r.tr.PauseChannel(ctx, c.chid)
					case "resume":
						done <- r.tr.ResumeChannel(ctx, umsg, c.chid)
					default:
						done <- r.tr.CloseChannel(ctx, c.chid)
					}
				}()
				var err error
				select {
				case err = <-done:
				case <-time.After(watchdog):
					cancel()
					m.fail("C09/close-hang/request-absent", "%sChannel(%s) did not return within %s (current request present=%v, requester cancelled=%v)", act, chidStr(c.chid), watchdog, c.current != nil, c.reqCancel)
				}
				cancel()
				calls := r.gs.Since(g0)
				if !c.tracked {
					if err == nil || len(calls) != 0 {
						m.fail("C16/untracked-channel-call", "%s on an untracked channel: err=%v, %d graphsync calls", act, err, len(calls))
					}
					continue
				}
				wantCall := ""
				switch act {
				case "pause":
					if c.current != nil && !c.reqCancel {
						wantCall = "pause"
					}
				case "resume":
					if c.current != nil && !c.reqCancel {
						wantCall = "unpause"
					}
					if c.current != nil && c.reqCancel {
						c.pending = append(c.pending, msgKey(umsg))
					}
				case "close":
					if c.current != nil && !c.reqCancel {
						wantCall = "cancel"
					}
				}
				if wantCall == "" {
					if len(calls) != 0 {
						m.fail("C16/unexpected-graphsync-call", "%s with nothing to act on made graphsync call %s", act, calls[0].Kind)
					}
				} else {
					if len(calls) != 1 || calls[0].Kind != wantCall || calls[0].ID != *c.current {
						m.fail("C16/current-request", "%s must %s the channel's current request %s; graphsync calls: %d", act, wantCall, *c.current, len(calls))
					}
					if act == "resume" {
						if e, ok := hasExt(calls[0].Exts, extension.ExtensionDataTransfer1_1); !ok || gen.EncHex(e.Data) != msgKey(umsg) {
							m.fail("C11/resume-message", "unpause does not carry the update message")
						}
					}
				}
				if err != nil {
					m.fail("C16/call-error", "%sChannel returned %v", act, err)
				}
				if act == "close" && wantCall == "cancel" {
					if c.liveReq != nil && *c.liveReq == *c.current {
						// the double ends the request like graphsync does: the transport reports the cancellation
						if _, still := m.owner[*c.current]; still {
							m.expect(e0, "close", dbl.EvCall{Kind: "cancelled", Chid: c.chid})
						} else {
							r.waitEv(e0 + 1)
						}
						c.liveReq = nil
					}
					c.current = nil
				}
			case "cleanup":
				m.logf("CleanupChannel(%s) store=%v", chidStr(c.chid), c.store)
				r.tr.CleanupChannel(c.chid)
				calls := r.gs.Since(g0)
				wantUnreg := 0
				if c.store && c.tracked {
					wantUnreg = 1
				}
				if len(calls) != wantUnreg || (wantUnreg == 1 && (calls[0].Kind != "unregister-store" || calls[0].Name != "data-transfer-"+c.chid.String())) {
					m.fail("C16/store-lifetime", "cleanup made %d graphsync calls, store registered=%v", len(calls), c.store)
				}
				for id, o := range m.owner {
					if o == c {
						delete(m.owner, id)
					}
				}
				c.tracked, c.store, c.current, c.reqCancel, c.pending = false, false, nil, false, nil
				m.afterCleanup++
			case "use-store":
				m.logf("UseStore(%s) already registered=%v", chidStr(c.chid), c.store)
				if c.store {
					// the manager re-applies a channel's transport options on every restart:
					// a second registration is refused by graphsync and must change nothing
					_ = r.tr.UseStore(c.chid, cidLinkSystem())
					for _, call := range r.gs.Since(g0) {
						if call.Kind == "unregister-store" {
							m.fail("C16/store-lifetime", "re-applying UseStore unregistered the channel's store")
						}
					}
					continue
				}
				if err := r.tr.UseStore(c.chid, cidLinkSystem()); err != nil {
					m.fail("C16/use-store", "UseStore: %v", err)
				}
				calls := r.gs.Since(g0)
				if len(calls) != 1 || calls[0].Kind != "register-store" || calls[0].Name != "data-transfer-"+c.chid.String() {
					m.fail("C16/store-lifetime", "UseStore did not register the channel's persistence option")
				}
				c.store, c.tracked = true, true
			}
			if m.liveCount() >= 2 {
				m.liveTogether = true
			}
			// registered stores == model
			want := map[string]bool{}
			for _, o := range m.chans {
				if o.store {
					want["data-transfer-"+o.chid.String()] = true
				}
			}
			got := r.gs.Stores()
			if len(got) != len(want) {
				m.fail("C16/store-lifetime", "registered persistence options %v, model %v", got, want)
			}
		}
		sp.Eval()
		if m.liveTogether && m.afterCleanup > 0 {
			fp := stats.FP(strings.Join(kinds, ","))
			sp.Nontrivial(fp)
			sp.Sample(fp, map[string]any{"engine": "gsx", "history": m.log})
		}
		if m.liveTogether {
			sp.Class("two_channels_live_together")
		}
		if m.afterCleanup > 0 {
			sp.Class("callbacks_after_cleanup")
		}
		sp.ClassN("probes_with_unknown_request_id", m.unknownProbes)
	})
}

func reqsOf(m *gsModel, c *gch) []graphsync.RequestID {
	var out []graphsync.RequestID
	for id, o := range m.owner {
		if o == c {
			out = append(out, id)
		}
	}
	return out
}
