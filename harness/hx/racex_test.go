package hx

import (
	"context"
	"errors"
	"fmt"
	"runtime"
	"sort"
	"strings"
	"sync"
	"sync/atomic"
	"testing"
	"time"

	"github.com/ipld/go-ipld-prime/node/basicnode"
	"pgregory.net/rapid"

	datatransfer "github.com/filecoin-project/go-data-transfer/v2"
	"github.com/filecoin-project/go-data-transfer/v2/channelmonitor"
	dtimpl "github.com/filecoin-project/go-data-transfer/v2/impl"
	"github.com/filecoin-project/go-data-transfer/v2/message"

	"verif/harness/dbl"
	"verif/harness/gen"
	"verif/harness/stats"
)

// These tests are meant to run in the -race build (hxrace); they also pass without it.

func allStacks() string {
	buf := make([]byte, 1<<22)
	n := runtime.Stack(buf, true)
	return string(buf[:n])
}

// parkedOnLibraryLock returns, by goroutine id, the stacks of the goroutines that are
// parked in a sync.Mutex / RWMutex lock operation with a library frame on the stack.
func parkedOnLibraryLock() map[string]string {
	out := map[string]string{}
	for _, g := range strings.Split(allStacks(), "\n\n") {
		if (strings.Contains(g, "sync.(*Mutex).Lock") || strings.Contains(g, "sync.(*RWMutex).Lock") || strings.Contains(g, "sync.(*RWMutex).RLock")) &&
			strings.Contains(g, "go-data-transfer/v2") && (strings.Contains(g, "[sync.Mutex.Lock") || strings.Contains(g, "[sync.RWMutex") || strings.Contains(g, "[semacquire")) {
			f := strings.Fields(g)
			if len(f) > 1 && f[0] == "goroutine" {
				out[f[1]] = g
			}
		}
	}
	return out
}

// joinOrDump waits for wg; on watchdog expiry it returns the goroutine dump.
func joinOrDump(wg *sync.WaitGroup, d time.Duration) (bool, string) {
	done := make(chan struct{})
	go func() { wg.Wait(); close(done) }()
	select {
	case <-done:
		return true, ""
	case <-time.After(d):
		return false, allStacks()
	}
}

// TestC18_RaceOpens: concurrent opens on one manager.
func TestC18_RaceOpens(t *testing.T) {
	sp := stats.For("C18")
	rapid.Check(t, func(t *rapid.T) {
		G := rapid.IntRange(2, 16).Draw(t, "goroutines")
		M := rapid.IntRange(1, 40).Draw(t, "opensEach")
		pulls := rapid.SliceOfN(rapid.Bool(), G, G).Draw(t, "pull")
		r := newMgrRig(t, gen.Peer(0), dbl.NewRecDatastore(), "T/a")
		defer r.stop()
		type rec struct {
			id         datatransfer.TransferID
			start, end int64
			g          int
		}
		results := make([][]rec, G)
		var overlap int64
		var inFlight int64
		var wg sync.WaitGroup
		startGate := make(chan struct{})
		for g := 0; g < G; g++ {
			g := g
			wg.Add(1)
			go func() {
				defer wg.Done()
				<-startGate
				v := datatransfer.TypedVoucher{Type: "T/a", Voucher: basicnode.NewString("v")}
				for i := 0; i < M; i++ {
					if atomic.AddInt64(&inFlight, 1) > 1 {
						atomic.AddInt64(&overlap, 1)
					}
					s := dbl.NextSeq()
					var chid datatransfer.ChannelID
					var err error
					if pulls[g] {
						chid, err = r.mgr.OpenPullDataChannel(bg(), gen.Peer(1+g%3), v, simpleCid(1), strNode("sel"))
					} else {
						chid, err = r.mgr.OpenPushDataChannel(bg(), gen.Peer(1+g%3), v, simpleCid(1), strNode("sel"))
					}
					e := dbl.NextSeq()
					atomic.AddInt64(&inFlight, -1)
					if err != nil {
						results[g] = append(results[g], rec{id: 0, start: s, end: e, g: g})
						continue
					}
					results[g] = append(results[g], rec{id: chid.ID, start: s, end: e, g: g})
				}
			}()
		}
		close(startGate)
		if ok, dump := joinOrDump(&wg, 2*watchdog); !ok {
			mfail(t, nil, "C20/deadlock", "concurrent opens did not return:\n%s", dump)
		}
		seen := map[datatransfer.TransferID]int{}
		var all []rec
		for g := range results {
			var last datatransfer.TransferID
			for _, x := range results[g] {
				if x.id == 0 {
					mfail(t, nil, "C18/open-failed", "an open failed under concurrency (duplicate id refused by the store?)")
				}
				if _, dup := seen[x.id]; dup {
					mfail(t, nil, "C18/duplicate-id", "transfer id %d issued twice (goroutines %d and %d)", x.id, seen[x.id], g)
				}
				seen[x.id] = g
				if x.id <= last {
					mfail(t, nil, "C18/id-not-increasing", "goroutine %d got id %d after %d", g, x.id, last)
				}
				last = x.id
				all = append(all, x)
			}
		}
		// an open that started after another returned has a larger id
		sort.Slice(all, func(i, j int) bool { return all[i].end < all[j].end })
		var maxEnded datatransfer.TransferID
		j := 0
		byStart := append([]rec{}, all...)
		sort.Slice(byStart, func(i, j int) bool { return byStart[i].start < byStart[j].start })
		for _, x := range byStart {
			for j < len(all) && all[j].end < x.start {
				if all[j].id > maxEnded {
					maxEnded = all[j].id
				}
				j++
			}
			if x.id <= maxEnded {
				mfail(t, nil, "C18/id-order", "open that started after id %d had been returned got id %d", maxEnded, x.id)
			}
		}
		sp.Eval()
		if overlap > 0 {
			fp := stats.FP("race-opens", G, M, overlap > 10)
			sp.Nontrivial(fp)
			sp.Class("concurrent_opens_overlapped")
			if sp.WantSample() {
				sp.Sample(fp, map[string]any{"engine": "racex", "goroutines": G, "opens_each": M, "overlapping_calls": overlap, "ids_issued": len(all)})
			}
		}
	})
}

// TestC07_RaceReports: concurrent reporters of overlapping position ranges on one channel.
func TestC07_RaceReports(t *testing.T) {
	sp := stats.For("C07")
	rapid.Check(t, func(t *rapid.T) {
		spec := drawSpec(t, 0, false)
		h := newHist(t, []chanSpec{spec})
		defer h.close()
		ongoing(h, 0)
		kind := dataKinds(spec)[0]
		G := rapid.IntRange(2, 8).Draw(t, "goroutines")
		maxPos := rapid.IntRange(2, 20).Draw(t, "positions")
		// each goroutine reports a generated ascending run
		runs := make([][]int, G)
		for g := range runs {
			lo := rapid.IntRange(1, maxPos).Draw(t, "lo")
			hi := rapid.IntRange(lo, maxPos).Draw(t, "hi")
			for p := lo; p <= hi; p++ {
				runs[g] = append(runs[g], p)
			}
		}
		pow3 := func(i int) uint64 {
			v := uint64(1)
			for ; i > 0; i-- {
				v *= 3
			}
			return v
		}
		c := h.chans[0]
		pubs0 := h.rig.pub.count(c.chid)
		var wg sync.WaitGroup
		gate := make(chan struct{})
		for g := range runs {
			g := g
			wg.Add(1)
			go func() {
				defer wg.Done()
				<-gate
				for _, p := range runs[g] {
					a := Act{Kind: kind, Index: int64(p), Delta: pow3(p), Unique: true}
					_ = h.apply(a)
				}
			}()
		}
		close(gate)
		if ok, dump := joinOrDump(&wg, 2*watchdog); !ok {
			h.fail("C20/deadlock", "concurrent reports did not return:\n%s", dump)
		}
		st := h.rig.sync(h.t, c.chid)
		v, _ := vecOf(st)
		total, idxTotal := dirBytes(v, kind)
		// decode the total in base 3: every digit must be 0 or 1 (no position counted twice)
		reported := map[int]bool{}
		maxRep := 0
		for _, r := range runs {
			for _, p := range r {
				reported[p] = true
				if p > maxRep {
					maxRep = p
				}
			}
		}
		ones := 0
		rest := total
		for p := 0; rest > 0; p++ {
			d := rest % 3
			rest /= 3
			if d > 1 {
				h.fail("C07/concurrent-double-count", "position %d was counted %d times (total %d)", p, d, total)
			}
			if d == 1 {
				ones++
				if !reported[p] {
					h.fail("C07/concurrent-phantom", "total %d contains position %d which nobody reported", total, p)
				}
			}
		}
		if total/pow3(maxRep)%3 != 1 {
			h.fail("C07/concurrent-max-missing", "the highest reported position %d is not part of the total %d", maxRep, total)
		}
		if idxTotal != int64(maxRep) {
			h.fail("C07/index-total", "block index total %d, highest reported position %d", idxTotal, maxRep)
		}
		prog := 0
		for _, e := range h.rig.pub.entries(c.chid)[pubs0:] {
			if e.Code == progressOf[kindToCode[kind]] {
				prog++
			}
		}
		if prog != ones {
			h.fail("C07/concurrent-progress-events", "%d progress events but %d positions counted", prog, ones)
		}
		sp.Eval()
		fp := stats.FP("race-reports", G, fmt.Sprint(runs))
		sp.Nontrivial(fp)
		sp.Class("concurrent_reporters")
		if sp.WantSample() {
			sp.Sample(fp, map[string]any{"engine": "racex", "runs": runs, "total": total, "counted_positions": ones})
		}
	})
}

// ---------------------------------------------------------------------------
// C20

type rop struct {
	kind string
	ch   int
	arg  int
}

var ropKinds = []string{"report", "report", "report", "pause", "resume", "query", "list", "voucher", "update", "remote-pause", "remote-resume", "restart", "open", "close", "subscribe", "unsubscribe", "notice", "status"}

func TestC20_Race(t *testing.T) {
	sp := stats.For("C20")
	sp.SetRule("racex (built with -race, GORACE=halt_on_error=1): a generated program = 3..8 goroutines x 10..50 operations over one shared manager with thread-safe doubles: opens, closes, pauses, resumes, restarts, block reports, message deliveries over both paths, vouchers, validation updates, (un)subscriptions with re-entrant subscribers (from inside the callback: query state, send voucher / result, update validation, pause, resume, close), queries, listing; channel monitor enabled with millisecond timeouts; then the API callers are joined and Stop is called while transport callbacks on the open channels are still arriving (they end when the transport double's Shutdown runs). gsx part: every hook x every message kind. Oracle: race detector silent; every call returns within the watchdog (else goroutine dump = deadlock); after Stop no goroutine is parked in a sync.Mutex/RWMutex lock with a go-data-transfer frame. Non-trivial: >=2 goroutines, >=1 re-entrant subscriber call, Stop overlapping >=1 in-flight callback; distinct by the program text")
	rapid.Check(t, func(t *rapid.T) {
		G := rapid.IntRange(3, 8).Draw(t, "goroutines")
		progs := make([][]rop, G)
		for g := range progs {
			n := rapid.IntRange(10, 50).Draw(t, "ops")
			for i := 0; i < n; i++ {
				progs[g] = append(progs[g], rop{kind: rapid.SampledFrom(ropKinds).Draw(t, "kind"), ch: rapid.IntRange(0, 5).Draw(t, "ch"), arg: rapid.IntRange(0, 7).Draw(t, "arg")})
			}
		}
		nch := rapid.IntRange(2, 5).Draw(t, "channels")
		rolesDrawn := rapid.SliceOfN(rapid.SampledFrom(roles), nch, nch).Draw(t, "roles")
		withMonitor := rapid.Bool().Draw(t, "monitor")
		gomax := rapid.SampledFrom([]int{2, 4, 16}).Draw(t, "gomaxprocs")
		prev := runtime.GOMAXPROCS(gomax)
		defer runtime.GOMAXPROCS(prev)

		r := &mgrRig{t: t, self: gen.Peer(0), ds: dbl.NewRecDatastore(), tr: dbl.NewTransport(), net: dbl.NewNetwork(gen.Peer(0)), pub: newPubLog(), vals: map[datatransfer.TypeIdentifier]*dbl.Validator{}}
		if withMonitor {
			r.opts = []dtimpl.DataTransferOption{dtimpl.ChannelRestartConfig(channelmonitor.Config{
				AcceptTimeout: 30 * time.Millisecond, CompleteTimeout: 30 * time.Millisecond, RestartDebounce: time.Millisecond, RestartBackoff: 2 * time.Millisecond, MaxConsecutiveRestarts: 3})}
		}
		r.start([]datatransfer.TypeIdentifier{"T/a"})
		var log []string
		var chans []*mchan
		for i := 0; i < nch; i++ {
			chans = append(chans, openRoleRaw(t, r, &log, rolesDrawn[i], datatransfer.TransferID(3000+i)))
		}
		var chMu sync.Mutex
		getCh := func(i int) *mchan {
			chMu.Lock()
			defer chMu.Unlock()
			return chans[i%len(chans)]
		}
		var blockIdx int64
		var reentrant int64
		var inCallback int64 // re-entrant subscriber calls currently inside the library
		var callSeq int64
		var callMu sync.Mutex
		activeCalls := map[int64]time.Time{} // the same calls, by id, with their start times
		var unsubs []datatransfer.Unsubscribe
		var subMu sync.Mutex
		ctx := context.Background()
		v := datatransfer.TypedVoucher{Type: "T/a", Voucher: basicnode.NewString("x")}
		makeSub := func(arg int) datatransfer.Subscriber {
			var n int64
			return func(evt datatransfer.Event, st datatransfer.ChannelState) {
				k := atomic.AddInt64(&n, 1)
				if k%5 != 0 {
					return
				}
				atomic.AddInt64(&reentrant, 1)
				atomic.AddInt64(&inCallback, 1)
				defer atomic.AddInt64(&inCallback, -1)
				callID := atomic.AddInt64(&callSeq, 1)
				callMu.Lock()
				activeCalls[callID] = time.Now()
				callMu.Unlock()
				defer func() {
					callMu.Lock()
					delete(activeCalls, callID)
					callMu.Unlock()
				}()
				id := st.ChannelID()
				switch arg % 7 {
				case 0:
					_, _ = r.mgr.ChannelState(ctx, id)
				case 1:
					_ = r.mgr.SendVoucher(ctx, id, v)
				case 2:
					_ = r.mgr.SendVoucherResult(ctx, id, v)
				case 3:
					_ = r.mgr.UpdateValidationStatus(ctx, id, datatransfer.ValidationResult{Accepted: true})
				case 4:
					_ = r.mgr.PauseDataTransferChannel(ctx, id)
				case 5:
					_ = r.mgr.ResumeDataTransferChannel(ctx, id)
				case 6:
					if k%25 == 0 {
						_ = r.mgr.CloseDataTransferChannel(ctx, id)
					}
				}
			}
		}
		exec := func(o rop) {
			c := getCh(o.ch)
			ev := r.ev()
			switch o.kind {
			case "report":
				_, _ = r.report(c, atomic.AddInt64(&blockIdx, 1), 100, true)
			case "pause":
				_ = r.mgr.PauseDataTransferChannel(ctx, c.chid)
			case "resume":
				_ = r.mgr.ResumeDataTransferChannel(ctx, c.chid)
			case "query":
				_, _ = r.mgr.ChannelState(ctx, c.chid)
			case "status":
				_ = r.mgr.TransferChannelStatus(ctx, c.chid)
			case "list":
				_, _ = r.mgr.InProgressChannels(ctx)
			case "voucher":
				if c.selfInit() {
					_ = r.mgr.SendVoucher(ctx, c.chid, v)
				} else {
					_ = r.mgr.SendVoucherResult(ctx, c.chid, v)
				}
			case "update":
				_ = r.mgr.UpdateValidationStatus(ctx, c.chid, datatransfer.ValidationResult{Accepted: o.arg != 0, DataLimit: uint64(o.arg) * 1000})
			case "remote-pause", "remote-resume":
				var m datatransfer.Message
				if c.selfInit() {
					m = message.UpdateResponse(c.chid.ID, o.kind == "remote-pause")
				} else {
					m = message.UpdateRequest(c.chid.ID, o.kind == "remote-pause")
				}
				deliver(r, c.other, m, o.arg%2 == 0)
			case "restart":
				_ = r.mgr.RestartDataTransferChannel(ctx, c.chid)
			case "open":
				role := roles[o.arg%4]
				var nc *mchan
				var err error
				if (role == "createPush" || role == "createPull") && o.arg >= 4 {
					// with a per-transfer (re-entrant) subscriber
					nc = &mchan{role: role, other: gen.Peer(1 + o.arg%3), voucher: v, base: simpleCid(2), sel: strNode("sel")}
					if role == "createPush" {
						nc.chid, err = r.mgr.OpenPushDataChannel(ctx, nc.other, v, nc.base, nc.sel, datatransfer.WithSubscriber(makeSub(o.arg)))
					} else {
						nc.chid, err = r.mgr.OpenPullDataChannel(ctx, nc.other, v, nc.base, nc.sel, datatransfer.WithSubscriber(makeSub(o.arg)))
					}
				} else {
					nc, err = r.open(role, gen.Peer(1+o.arg%3), datatransfer.TransferID(5000+atomic.AddInt64(&blockIdx, 1)), v, simpleCid(2), strNode("sel"), role == "receivePull" && o.arg%2 == 0)
				}
				if err == nil {
					r.toOngoing(nc)
					chMu.Lock()
					chans = append(chans, nc)
					chMu.Unlock()
				}
			case "close":
				if o.arg < 3 {
					_ = r.mgr.CloseDataTransferChannel(ctx, c.chid)
				}
			case "subscribe":
				u := r.mgr.SubscribeToEvents(makeSub(o.arg))
				subMu.Lock()
				unsubs = append(unsubs, u)
				subMu.Unlock()
			case "unsubscribe":
				subMu.Lock()
				var u datatransfer.Unsubscribe
				if len(unsubs) > 0 {
					u = unsubs[0]
					unsubs = unsubs[1:]
				}
				subMu.Unlock()
				if u != nil {
					u()
				}
			case "notice":
				switch o.arg % 3 {
				case 0:
					_ = ev.OnSendDataError(c.chid, errors.New("net"))
				case 1:
					_ = ev.OnReceiveDataError(c.chid, errors.New("net"))
				default:
					_ = ev.OnRequestDisconnected(c.chid, errors.New("net"))
				}
			}
		}
		// a re-entrant subscriber is always present
		first := r.mgr.SubscribeToEvents(makeSub(0))
		var wg sync.WaitGroup
		gate := make(chan struct{})
		for g := range progs {
			g := g
			wg.Add(1)
			go func() {
				defer wg.Done()
				<-gate
				for _, o := range progs[g] {
					exec(o)
				}
			}()
		}
		close(gate)
		if ok, dump := joinOrDump(&wg, 3*watchdog); !ok {
			mfail(t, log, "C20/deadlock", "API callers did not return within %s:\n%s", 3*watchdog, dump)
		}
		// transport callbacks keep arriving on the channels that are still open until the transport is shut down
		var cbWG sync.WaitGroup
		var cbCalls, cbDuringStop int64
		var stopping int32
		chMu.Lock()
		live := append([]*mchan{}, chans...)
		chMu.Unlock()
		for i, c := range live {
			if i >= 4 {
				break
			}
			c := c
			cbWG.Add(1)
			go func() {
				defer cbWG.Done()
				for {
					select {
					case <-r.tr.ShutdownCh():
						return
					default:
					}
					_, _ = r.report(c, atomic.AddInt64(&blockIdx, 1), 10, true)
					atomic.AddInt64(&cbCalls, 1)
					if atomic.LoadInt32(&stopping) == 1 {
						atomic.AddInt64(&cbDuringStop, 1)
					}
					time.Sleep(50 * time.Microsecond)
				}
			}()
		}
		time.Sleep(2 * time.Millisecond)
		atomic.StoreInt32(&stopping, 1)
		stopDone := make(chan error, 1)
		go func() {
			sctx, cancel := context.WithTimeout(context.Background(), 2*watchdog)
			defer cancel()
			stopDone <- r.mgr.Stop(sctx)
		}()
		select {
		case <-stopDone:
		case <-time.After(3 * watchdog):
			mfail(t, log, "C20/stop-hang", "Stop did not return within %s while transfers were active:\n%s", 3*watchdog, allStacks())
		}
		if ok, dump := joinOrDump(&cbWG, 3*watchdog); !ok {
			mfail(t, log, "C20/callback-hang", "transport callbacks did not return after Stop:\n%s", dump)
		}
		// every call a subscriber made from inside its callback must have returned
		// (a call is judged by its own age: a late event - e.g. of a monitor timer that fired just
		// before Stop - may enter a callback at any instant, and being inside one is not being stuck)
		callMu.Lock()
		pending := map[int64]time.Time{}
		for id, since := range activeCalls {
			pending[id] = since
		}
		callMu.Unlock()
		nStuck := 0
		for len(pending) > 0 && nStuck == 0 {
			callMu.Lock()
			for id, since := range pending {
				if _, still := activeCalls[id]; !still {
					delete(pending, id)
				} else if time.Since(since) > watchdog {
					nStuck++
				}
			}
			callMu.Unlock()
			if len(pending) > 0 && nStuck == 0 {
				time.Sleep(5 * time.Millisecond)
			}
		}
		if nStuck > 0 {
			mfail(t, log, "C20/stop/query-racing-stop-hangs", "%d call(s) made by a subscriber from inside its callback have not returned %s after they began (Stop has returned):\n%s", nStuck, watchdog, allStacks())
		}
		// the event subscription API is still usable (nobody is stuck holding its lock)
		if !within(func() {
			first()
			u := r.mgr.SubscribeToEvents(func(datatransfer.Event, datatransfer.ChannelState) {})
			u()
		}) {
			mfail(t, log, "C20/stop/subscription-lock-held", "Subscribe / unsubscribe block after Stop:\n%s", allStacks())
		}
		// no goroutine may stay parked on a library lock (a goroutine that is merely
		// waiting its turn at the sampled instant - e.g. a channel-monitor timer that fired
		// just before Stop - is gone at the next sample; a dead-locked one is still there)
		time.Sleep(2 * time.Millisecond)
		parked := parkedOnLibraryLock()
		for _, wait := range []time.Duration{300 * time.Millisecond, time.Second, 2 * time.Second} {
			if len(parked) == 0 {
				break
			}
			time.Sleep(wait)
			again := parkedOnLibraryLock()
			for id := range parked {
				if g, ok := again[id]; ok {
					parked[id] = g
				} else {
					delete(parked, id)
				}
			}
		}
		for _, g := range parked {
			mfail(t, log, "C20/goroutine-blocked-on-lock", "after Stop a goroutine stays blocked on a library lock (still there after 3.3 s):\n%s", g)
		}
		sp.Eval()
		if atomic.LoadInt64(&reentrant) > 0 && atomic.LoadInt64(&cbDuringStop) > 0 {
			var text []string
			for _, p := range progs {
				var ks []string
				for _, o := range p {
					ks = append(ks, fmt.Sprintf("%s(c%d,%d)", o.kind, o.ch, o.arg))
				}
				text = append(text, strings.Join(ks, " "))
			}
			fp := stats.FP(strings.Join(text, "|"))
			sp.Nontrivial(fp)
			if sp.WantSample() {
				sp.Sample(fp, map[string]any{"engine": "racex", "goroutines": G, "monitor": withMonitor, "gomaxprocs": gomax, "programs": text, "reentrant_subscriber_calls": reentrant, "callbacks_during_stop": cbDuringStop})
			}
			sp.Class("reentrant_and_stop_overlap")
		}
		if withMonitor {
			sp.Class("with_channel_monitor")
		}
	})
}

// openRoleRaw opens a channel and drives it to Ongoing without synchronising through the witness.
func openRoleRaw(t *rapid.T, r *mgrRig, log *[]string, role string, tid datatransfer.TransferID) *mchan {
	v := datatransfer.TypedVoucher{Type: "T/a", Voucher: basicnode.NewString("v")}
	c, err := r.open(role, gen.Peer(1), tid, v, simpleCid(7), strNode("sel"), false)
	if err != nil {
		mfail(t, *log, "HARNESS/setup", "opening %s: %v", role, err)
	}
	r.toOngoing(c)
	_, _ = r.flush(c.chid)
	return c
}
