package hx

import (
	"fmt"
	"strings"
	"testing"

	"github.com/ipld/go-ipld-prime/node/basicnode"
	"github.com/libp2p/go-libp2p/core/peer"
	"pgregory.net/rapid"

	datatransfer "github.com/filecoin-project/go-data-transfer/v2"
	"github.com/filecoin-project/go-data-transfer/v2/message"

	"verif/harness/dbl"
	"verif/harness/gen"
	"verif/harness/stats"
)

// openAny opens a channel in a generated role and drives it to a generated stage.
func openAny(t *rapid.T, r *mgrRig, log *[]string, label string, tid datatransfer.TransferID, other peer.ID) *mchan {
	role := rapid.SampledFrom(roles).Draw(t, label+".role")
	v := datatransfer.TypedVoucher{Type: "T/a", Voucher: gen.SmallNode().Draw(t, label+".voucher")}
	viaTransport := role == "receivePull" && rapid.Bool().Draw(t, label+".viaTransport")
	c, err := r.open(role, other, tid, v, gen.SimpleCid().Draw(t, label+".base"), strNode("sel"), viaTransport)
	if err != nil {
		mfail(t, *log, "HARNESS/setup", "opening %s: %v", role, err)
	}
	stage := rapid.IntRange(0, 3).Draw(t, label+".stage")
	if stage >= 1 {
		r.toOngoing(c)
		addVouchers(t, r, c, label)
	}
	if stage >= 2 {
		for i := 1; i <= 3; i++ {
			_, _ = r.report(c, int64(i), uint64(50*i), true)
		}
	}
	if stage >= 3 {
		_ = r.ev().OnChannelCompleted(c.chid, nil) // TransferFinished / Completing(responder)
	}
	st := r.sync(c.chid)
	if st == nil {
		mfail(t, *log, "HARNESS/setup", "channel %s missing after setup", c)
	}
	if isCleanup(st.Status()) {
		st, _ = r.settle(c.chid)
		r.fenceWait()
	}
	c.pubSeen = r.pub.count(c.chid)
	*log = append(*log, fmt.Sprintf("open %s stage=%d status=%s", c, stage, datatransfer.Statuses[st.Status()]))
	return c
}

// addVouchers lets the initiator of c send 0..2 further vouchers (the channel then
// holds more than one voucher; its opening voucher stays c.voucher).
func addVouchers(t *rapid.T, r *mgrRig, c *mchan, label string) {
	n := rapid.IntRange(0, 2).Draw(t, label+".extraVouchers")
	for i := 0; i < n; i++ {
		v := datatransfer.TypedVoucher{Type: rapid.SampledFrom([]datatransfer.TypeIdentifier{"T/a", "T/a", "T/b", "T/other"}).Draw(t, label+".extraVoucherType"), Voucher: basicnode.NewString(fmt.Sprintf("extra-%d-%s", i, rapid.StringMatching("[a-z]{1,3}").Draw(t, label+".extraVoucher")))}
		if c.selfInit() {
			_ = r.mgr.SendVoucher(bg(), c.chid, v)
		} else {
			m, _ := message.VoucherRequest(c.chid.ID, &v)
			deliver(r, c.other, m, c.viaTrans)
		}
		c.extra = append(c.extra, v)
	}
}

type msgSpec struct {
	kind   string
	tid    datatransfer.TransferID
	sender peer.ID
}

var requestKinds = []string{"req-new", "req-restart", "req-pause", "req-resume", "req-voucher", "req-cancel"}
var responseKinds = []string{"resp-new", "resp-restart", "resp-voucher-result", "resp-complete", "resp-complete-paused", "resp-pause", "resp-resume", "resp-cancel", "resp-rejected"}

func buildMsg(kind string, tid datatransfer.TransferID, v datatransfer.TypedVoucher, base peerCid) datatransfer.Message {
	switch kind {
	case "req-new":
		return newRequestMsg(tid, false, base.pull, v, base.c, strNode("sel"))
	case "req-restart":
		return newRequestMsg(tid, true, base.pull, v, base.c, strNode("sel"))
	case "req-pause":
		return message.UpdateRequest(tid, true)
	case "req-resume":
		return message.UpdateRequest(tid, false)
	case "req-voucher":
		m, _ := message.VoucherRequest(tid, &v)
		return m
	case "req-cancel":
		return message.CancelRequest(tid)
	case "resp-new":
		m, _ := message.NewResponse(tid, true, false, &v)
		return m
	case "resp-restart":
		m, _ := message.RestartResponse(tid, true, false, nil)
		return m
	case "resp-voucher-result":
		m, _ := message.VoucherResultResponse(tid, true, false, &v)
		return m
	case "resp-complete":
		m, _ := message.CompleteResponse(tid, true, false, nil)
		return m
	case "resp-complete-paused":
		m, _ := message.CompleteResponse(tid, true, true, nil)
		return m
	case "resp-pause":
		return message.UpdateResponse(tid, true)
	case "resp-resume":
		return message.UpdateResponse(tid, false)
	case "resp-cancel":
		return message.CancelResponse(tid)
	case "resp-rejected":
		m, _ := message.NewResponse(tid, false, false, &v)
		return m
	}
	panic("unknown message kind " + kind)
}

type peerCid struct {
	c    cidT
	pull bool
}

// deliver hands a message to the manager as if sender had sent it, over the
// network path or (for requests/responses that graphsync would carry) the transport path.
func deliver(r *mgrRig, sender peer.ID, msg datatransfer.Message, viaTransport bool) {
	if msg.IsRequest() {
		req := msg.(datatransfer.Request)
		if viaTransport {
			chid := datatransfer.ChannelID{Initiator: sender, Responder: r.self, ID: msg.TransferID()}
			_, _ = r.ev().OnRequestReceived(chid, req)
		} else {
			r.recv().ReceiveRequest(bg(), sender, req)
		}
		return
	}
	resp := msg.(datatransfer.Response)
	if viaTransport {
		chid := datatransfer.ChannelID{Initiator: r.self, Responder: sender, ID: msg.TransferID()}
		_ = r.ev().OnResponseReceived(chid, resp)
	} else {
		r.recv().ReceiveResponse(bg(), sender, resp)
	}
}

func derivedChid(self, sender peer.ID, msg datatransfer.Message) datatransfer.ChannelID {
	if msg.IsRequest() {
		return datatransfer.ChannelID{Initiator: sender, Responder: self, ID: msg.TransferID()}
	}
	return datatransfer.ChannelID{Initiator: self, Responder: sender, ID: msg.TransferID()}
}

func storeSnapshot(r *mgrRig) map[string][]byte {
	out := map[string][]byte{}
	for k, v := range r.ds.Snapshot() {
		if strings.HasPrefix(k, "/3/") && k != storeKey(r.fence) {
			out[k] = v
		}
	}
	return out
}

// TestC05_Mgrx: messages from the counterparty, strangers and self, with colliding transfer ids.
func TestC05_Mgrx(t *testing.T) {
	sp := stats.For("C05")
	sp.SetRule("mgrx: 1..4 open channels (four roles, stages Requested..TransferFinished) with counterparties A/B; then 1..8 messages of any kind (6 request kinds, 9 response kinds, restart-existing-channel) from the counterparty, a stranger or self, with the transfer id of an open channel or a fresh one, over the network or the transport path. Oracle: every pre-existing channel other than the one addressed by (authenticated sender, kind, id) keeps byte-identical persisted state and sees no transport call; a message whose derived channel does not exist changes nothing that existed; restart-existing is honoured iff receiver initiated, sender is the counterparty and the channel is not terminated; valid restart requests mutated in one field are not honoured; local role checks on SendVoucher / SendVoucherResult / UpdateValidationStatus. gsx: extension messages on a graphsync request/response of the wrong role. Non-trivial: the transfer id collides with an existing channel and the sender is not entitled; distinct by (kind, sender class, role of the collided channel, path)")
	rapid.Check(t, func(t *rapid.T) {
		r := newMgrRig(t, gen.Peer(0), dbl.NewRecDatastore(), "T/a")
		defer r.stop()
		var log []string
		nch := rapid.IntRange(1, 4).Draw(t, "channels")
		var chans []*mchan
		for i := 0; i < nch; i++ {
			other := gen.Peer(rapid.IntRange(1, 2).Draw(t, "counterparty"))
			// responder-side ids are chosen by the remote: let them collide across peers
			tid := datatransfer.TransferID(700 + rapid.IntRange(0, 2).Draw(t, "tid"))
			dup := false
			for _, c := range chans {
				if !c.selfInit() && c.chid.ID == tid && c.other == other {
					dup = true
				}
			}
			if dup {
				continue
			}
			chans = append(chans, openAny(t, r, &log, fmt.Sprintf("c%d", i), tid, other))
		}
		byChid := map[datatransfer.ChannelID]*mchan{}
		for _, c := range chans {
			byChid[c.chid] = c
		}
		nmsg := rapid.IntRange(1, 8).Draw(t, "messages")
		for i := 0; i < nmsg; i++ {
			target := chans[rapid.IntRange(0, len(chans)-1).Draw(t, "target")]
			tid := target.chid.ID
			if rapid.IntRange(0, 5).Draw(t, "freshTid") == 0 {
				tid = datatransfer.TransferID(9000 + i)
			}
			senderClass := rapid.SampledFrom([]string{"counterparty", "counterparty", "stranger", "otherCounterparty", "self"}).Draw(t, "sender")
			var sender peer.ID
			switch senderClass {
			case "counterparty":
				sender = target.other
			case "stranger":
				sender = gen.Peer(5)
			case "otherCounterparty":
				sender = gen.Peer(3 - rapid.IntRange(1, 2).Draw(t, "oc"))
			case "self":
				sender = r.self
			}
			kinds := append(append([]string{}, requestKinds...), responseKinds...)
			kind := rapid.SampledFrom(kinds).Draw(t, "kind")
			viaTransport := rapid.Bool().Draw(t, "viaTransport")
			v := datatransfer.TypedVoucher{Type: "T/a", Voucher: basicnode.NewString("m")}
			msg := buildMsg(kind, tid, v, peerCid{c: target.base, pull: target.pull()})
			d := derivedChid(r.self, sender, msg)
			addressed, entitled := byChid[d]
			before := storeSnapshot(r)
			tr0 := r.tr.Len()
			desc := fmt.Sprintf("msg %s tid=%d from %s(%s) via %s -> derived channel %s exists=%v", kind, tid, gen.PeerName(sender), senderClass, map[bool]string{true: "transport", false: "network"}[viaTransport], chidStr(d), entitled)
			log = append(log, desc)
			guard(t, &log, "C04/panic", desc, func() { deliver(r, sender, msg, viaTransport) })
			r.syncAll()
			for _, c := range chans {
				if st, err := r.flush(c.chid); err == nil && isCleanup(st.Status()) {
					r.settle(c.chid)
				}
			}
			r.fenceWait()
			after := storeSnapshot(r)
			calls := r.tr.Since(tr0)
			for _, c := range chans {
				if entitled && c == addressed {
					continue
				}
				k := storeKey(c.chid)
				if !sameBytes(before[k], after[k]) {
					vv, _ := r.vec(c.chid)
					mfail(t, log, "C05/foreign-message-changed-channel", "channel %s changed although the message does not address it; now %s", c, vv.Short())
				}
				for _, call := range calls {
					if call.Chid == c.chid {
						mfail(t, log, "C05/foreign-message-touched-transport", "transport %s called for channel %s although the message does not address it", call.Kind, c)
					}
				}
				if np := newPubs(r, c); len(np) != 0 {
					mfail(t, log, "C05/foreign-message-event", "event(s) %v published for channel %s although the message does not address it", codesOf(np), c)
				}
			}
			for k := range after {
				if _, ok := before[k]; !ok {
					// a new record is only legitimate for an accepted new request on its derived id
					if !(kind == "req-new" && k == storeKey(d)) {
						mfail(t, log, "C05/record-created", "message created the record %s", k)
					}
					nc := &mchan{role: map[bool]string{true: "receivePull", false: "receivePush"}[target.pull()], chid: d, other: sender, voucher: v, base: target.base, sel: strNode("sel")}
					chans = append(chans, nc)
					byChid[d] = nc
					nc.pubSeen = r.pub.count(d)
				}
			}
			if entitled {
				addressed.pubSeen = r.pub.count(addressed.chid)
				// role confusion inside the addressed channel cannot occur: the derived id already encodes the role
			}
			sp.Eval()
			collides := false
			var collidedRole string
			for _, c := range chans {
				if c.chid.ID == tid && c.chid != d {
					collides = true
					collidedRole = c.role
				}
			}
			if collides && !entitled {
				fp := stats.FP(kind, senderClass, collidedRole, viaTransport)
				sp.Nontrivial(fp)
				sp.Sample(fp, map[string]any{"engine": "mgrx", "case": log})
				sp.Class("colliding_id_not_entitled")
			}
			if entitled {
				sp.Class("entitled_message")
			}
		}
	})
}

// TestC05_MgrxRestart: restart requests mutated in one field, restart-existing-channel requests, local role checks.
func TestC05_MgrxRestart(t *testing.T) {
	sp := stats.For("C05")
	rapid.Check(t, func(t *rapid.T) {
		r := newMgrRig(t, gen.Peer(0), dbl.NewRecDatastore(), "T/a", "T/b")
		defer r.stop()
		var log []string
		c := openAny(t, r, &log, "c", 800, gen.Peer(1))
		st, _ := r.flush(c.chid)
		terminated := isTerminal(st.Status())
		if !terminated && rapid.IntRange(0, 4).Draw(t, "terminate") == 0 {
			_ = r.closeCh(c.chid)
			r.settle(c.chid)
			r.syncAll()
			terminated = true
			log = append(log, "channel closed (Cancelled)")
		}
		c.pubSeen = r.pub.count(c.chid)
		action := rapid.SampledFrom([]string{"restart-mutated", "restart-existing", "local-role"}).Draw(t, "action")
		before := storeSnapshot(r)
		sent0, tr0, val0 := r.net.SentLen(), r.tr.Len(), totalValidatorCalls(r)
		switch action {
		case "restart-mutated":
			mutation := rapid.SampledFrom([]string{"none", "none", "sender", "base", "vtype", "vcontent", "latest-voucher"}).Draw(t, "mutation")
			if mutation == "latest-voucher" && len(c.extra) == 0 {
				mutation = "vcontent"
			}
			sender, base, v := c.other, c.base, c.voucher
			switch mutation {
			case "latest-voucher":
				// repeats the most recent voucher of the channel instead of the one it was opened with
				v = c.extra[len(c.extra)-1]
			case "sender":
				sender = gen.Peer(5)
			case "base":
				base = simpleCid(99)
			case "vtype":
				v.Type = "T/b"
			case "vcontent":
				v.Voucher = basicnode.NewString("forged")
			}
			req := newRequestMsg(c.chid.ID, true, c.pull(), v, base, c.sel)
			viaTransport := c.pull() && rapid.Bool().Draw(t, "viaTransport")
			desc := fmt.Sprintf("restart request mutation=%s via transport=%v on %s (terminated=%v)", mutation, viaTransport, c, terminated)
			log = append(log, desc)
			var returned datatransfer.Response
			guard(t, &log, "C04/panic", desc, func() {
				if viaTransport {
					returned, _ = r.ev().OnRequestReceived(datatransfer.ChannelID{Initiator: sender, Responder: r.self, ID: c.chid.ID}, req)
				} else {
					r.recv().ReceiveRequest(bg(), sender, req)
				}
			})
			r.syncAll()
			r.settle(c.chid)
			r.fenceWait()
			honourable := mutation == "none" && !c.selfInit() && !terminated
			pubs := newPubs(r, c)
			d := datatransfer.ChannelID{Initiator: sender, Responder: r.self, ID: c.chid.ID}
			replies := findReply(r, c.chid.ID, d, sent0, tr0, returned)
			vcalls := totalValidatorCalls(r) - val0
			log = append(log, fmt.Sprintf("  -> events=%v replies=%d validatorCalls=%d", codesOf(pubs), len(replies), vcalls))
			if honourable {
				if !hasCode(pubs, datatransfer.Restart) || vcalls != 1 || len(replies) != 1 || !replies[0].msg.Accepted() {
					mfail(t, log, "C10/valid-restart-refused", "valid restart request was not honoured")
				}
				sp.Class("valid_restart_honoured")
			} else {
				if hasCode(pubs, datatransfer.Restart) || vcalls != 0 {
					mfail(t, log, "C05/invalid-restart-honoured", "restart request (mutation=%s, selfInitiated=%v, terminated=%v) was honoured: Restart=%v validatorCalls=%d", mutation, c.selfInit(), terminated, hasCode(pubs, datatransfer.Restart), vcalls)
				}
				for _, rep := range replies {
					if rep.msg.Accepted() {
						mfail(t, log, "C05/invalid-restart-accepted", "restart request (mutation=%s) got an accepting reply", mutation)
					}
				}
				if len(replies) != 1 {
					mfail(t, log, "C04/reply-count", "%d replies to a refused restart request", len(replies))
				}
				if countKind(r.tr.Since(tr0), "open", c.chid) != 0 {
					mfail(t, log, "C05/invalid-restart-opened", "refused restart opened the transport")
				}
				if !sameBytes(before[storeKey(c.chid)], storeSnapshot(r)[storeKey(c.chid)]) {
					mfail(t, log, "C05/invalid-restart-changed-state", "refused restart changed the channel's durable state")
				}
				fp := stats.FP("restart-mutated", mutation, c.role, terminated, viaTransport)
				sp.Nontrivial(fp)
				sp.Sample(fp, map[string]any{"engine": "mgrx", "case": log})
				sp.Class("mutated_restart_" + mutation)
			}
		case "restart-existing":
			senderClass := rapid.SampledFrom([]string{"counterparty", "stranger", "self"}).Draw(t, "sender")
			sender := map[string]peer.ID{"counterparty": c.other, "stranger": gen.Peer(5), "self": r.self}[senderClass]
			named := c.chid
			if rapid.IntRange(0, 5).Draw(t, "unknownChannel") == 0 {
				named.ID = 4242
			}
			req := message.RestartExistingChannelRequest(named)
			desc := fmt.Sprintf("restart-existing-channel naming %s from %s on %s (terminated=%v)", chidStr(named), senderClass, c, terminated)
			log = append(log, desc)
			guard(t, &log, "C04/panic", desc, func() { r.recv().ReceiveRestartExistingChannelRequest(bg(), sender, req) })
			r.syncAll()
			sent := r.net.SentSince(sent0)
			calls := r.tr.Since(tr0)
			honourable := named == c.chid && c.selfInit() && senderClass == "counterparty" && !terminated
			var restartReqs, opens int
			for _, s := range sent {
				if s.Msg.IsRequest() && s.Msg.IsRestart() && s.Msg.TransferID() == c.chid.ID && s.To == c.other {
					restartReqs++
				}
			}
			for _, call := range calls {
				if call.Kind == "open" && call.Chid == c.chid {
					opens++
				}
			}
			log = append(log, fmt.Sprintf("  -> sent=%d restartRequests=%d opens=%d", len(sent), restartReqs, opens))
			if honourable {
				if c.pull() && (opens != 1 || restartReqs != 0) || !c.pull() && (restartReqs != 1 || opens != 0) {
					mfail(t, log, "C10/restart-existing-not-honoured", "legitimate restart-existing-channel request did not re-issue the original request (sent=%d opens=%d)", restartReqs, opens)
				}
				sp.Class("restart_existing_honoured")
			} else {
				if len(sent) != 0 || len(calls) != 0 {
					mfail(t, log, "C05/restart-existing-honoured", "restart-existing-channel request from %s (selfInitiated=%v terminated=%v) caused %d sends and %d transport calls", senderClass, c.selfInit(), terminated, len(sent), len(calls))
				}
				if !sameBytes(before[storeKey(c.chid)], storeSnapshot(r)[storeKey(c.chid)]) || len(storeSnapshot(r)) != len(before) {
					mfail(t, log, "C05/restart-existing-changed-state", "refused restart-existing-channel request changed durable state")
				}
				fp := stats.FP("restart-existing", senderClass, c.role, terminated, named == c.chid)
				sp.Nontrivial(fp)
				sp.Sample(fp, map[string]any{"engine": "mgrx", "case": log})
				sp.Class("restart_existing_refused")
			}
		case "local-role":
			v := datatransfer.TypedVoucher{Type: "T/a", Voucher: basicnode.NewString("x")}
			call := rapid.SampledFrom([]string{"SendVoucher", "SendVoucherResult", "UpdateValidationStatus"}).Draw(t, "call")
			desc := fmt.Sprintf("%s on %s", call, c)
			log = append(log, desc)
			var err error
			guard(t, &log, "C04/panic", desc, func() {
				switch call {
				case "SendVoucher":
					err = r.mgr.SendVoucher(bg(), c.chid, v)
				case "SendVoucherResult":
					err = r.mgr.SendVoucherResult(bg(), c.chid, v)
				default:
					err = r.mgr.UpdateValidationStatus(bg(), c.chid, datatransfer.ValidationResult{Accepted: true, VoucherResult: &v})
				}
			})
			r.syncAll()
			allowed := (call == "SendVoucher") == c.selfInit()
			if !allowed {
				if err == nil {
					mfail(t, log, "C05/local-role-check", "%s succeeded although the local node is not entitled", desc)
				}
				if r.net.SentLen() != sent0 || len(newPubs(r, c)) != 0 || !sameBytes(before[storeKey(c.chid)], storeSnapshot(r)[storeKey(c.chid)]) {
					mfail(t, log, "C05/local-role-effects", "%s was refused but sent or recorded something", desc)
				}
				fp := stats.FP("local-role", call, c.role)
				sp.Nontrivial(fp)
				sp.Sample(fp, map[string]any{"engine": "mgrx", "case": log})
				sp.Class("local_role_refused")
			}
		}
		sp.Eval()
	})
}
