package hx

import (
	"errors"
	"fmt"
	"sort"
	"strings"
	"testing"

	"github.com/ipld/go-ipld-prime/node/basicnode"
	"pgregory.net/rapid"

	datatransfer "github.com/filecoin-project/go-data-transfer/v2"
	"github.com/filecoin-project/go-data-transfer/v2/message"

	"verif/harness/dbl"
	"verif/harness/gen"
	"verif/harness/stats"
)

var apiStimuli = []string{"api-close", "api-close-with-error", "api-pause", "api-resume", "api-restart", "api-send-voucher", "api-send-voucher-result", "api-update-validation", "api-update-validation-reject"}
var callbackStimuli = []string{"cb-opened", "cb-initiated", "cb-data-received", "cb-data-queued", "cb-data-sent", "cb-completed", "cb-completed-error", "cb-request-cancelled", "cb-disconnected", "cb-send-error", "cb-receive-error"}

// TestC02_Mgrx: every API call, message kind and transport callback against terminated channels.
func TestC02_Mgrx(t *testing.T) {
	sp := stats.For("C02")
	rapid.Check(t, func(t *rapid.T) {
		r := newMgrRig(t, gen.Peer(0), dbl.NewRecDatastore(), "T/a")
		defer r.stop()
		var log []string
		role := rapid.SampledFrom(roles).Draw(t, "role")
		c := openRole(t, r, &log, role, 1100, rapid.Bool().Draw(t, "viaTransport"))
		for i := 1; i <= rapid.IntRange(0, 3).Draw(t, "blocks"); i++ {
			_, _ = r.report(c, int64(i), 100, true)
		}
		ending := rapid.SampledFrom([]string{"cancel", "fail", "complete"}).Draw(t, "ending")
		switch ending {
		case "cancel":
			_ = r.closeCh(c.chid)
		case "fail":
			_ = r.mgr.(closer).CloseDataTransferChannelWithError(bg(), c.chid, errors.New("boom"))
		case "complete":
			_ = r.ev().OnChannelCompleted(c.chid, nil)
			if c.selfInit() {
				m, _ := message.CompleteResponse(c.chid.ID, true, false, nil)
				deliver(r, c.other, m, false)
			}
		}
		st, ok := r.settle(c.chid)
		if !ok || !isTerminal(st.Status()) {
			mfail(t, log, "C09/no-settle", "channel not terminal after %s", ending)
		}
		// wait for the asynchronous cancel send of the close
		r.syncAll()
		final, _ := vecOf(st)
		raw := r.ds.Raw(storeKey(c.chid))
		c.pubSeen = r.pub.count(c.chid)
		log = append(log, fmt.Sprintf("terminated by %s: %s", ending, final.Short()))
		all := append(append(append([]string{"process-restart"}, apiStimuli...), callbackStimuli...), append(requestKinds, responseKinds...)...)
		all = append(all, "msg-restart-existing")
		n := rapid.IntRange(1, 15).Draw(t, "n")
		kinds := map[string]bool{}
		restarted := false
		v := datatransfer.TypedVoucher{Type: "T/a", Voucher: basicnode.NewString("late")}
		for i := 0; i < n; i++ {
			k := rapid.SampledFrom(all).Draw(t, "stimulus")
			viaTransport := rapid.Bool().Draw(t, "path")
			kinds[k] = true
			sent0, tr0 := r.net.SentLen(), r.tr.Len()
			var err error
			var returned datatransfer.Response
			desc := fmt.Sprintf("%s (transport path=%v)", k, viaTransport)
			guard(t, &log, "C02/panic", desc, func() {
				ev := r.ev()
				l := linkOf(simpleCid(50 + i))
				switch k {
				case "process-restart":
					r.restartProcess([]datatransfer.TypeIdentifier{"T/a"})
					restarted = true
				case "api-close":
					err = r.closeCh(c.chid)
					if err != nil {
						mfail(t, log, "C02/close-terminated-error", "CloseDataTransferChannel on a terminated channel returned %v", err)
					}
				case "api-close-with-error":
					err = r.mgr.(closer).CloseDataTransferChannelWithError(bg(), c.chid, errors.New("late"))
				case "api-pause":
					err = r.mgr.PauseDataTransferChannel(bg(), c.chid)
				case "api-resume":
					err = r.mgr.ResumeDataTransferChannel(bg(), c.chid)
				case "api-restart":
					err = r.mgr.RestartDataTransferChannel(bg(), c.chid)
				case "api-send-voucher":
					err = r.mgr.SendVoucher(bg(), c.chid, v)
				case "api-send-voucher-result":
					err = r.mgr.SendVoucherResult(bg(), c.chid, v)
				case "api-update-validation":
					err = r.mgr.UpdateValidationStatus(bg(), c.chid, datatransfer.ValidationResult{Accepted: true, DataLimit: 12345, VoucherResult: &v})
				case "api-update-validation-reject":
					err = r.mgr.UpdateValidationStatus(bg(), c.chid, datatransfer.ValidationResult{Accepted: false, VoucherResult: &v})
				case "cb-opened":
					_ = ev.OnChannelOpened(c.chid)
				case "cb-initiated":
					ev.OnTransferInitiated(c.chid)
				case "cb-data-received":
					_ = ev.OnDataReceived(c.chid, l, 10, int64(20+i), true)
				case "cb-data-queued":
					_, _ = ev.OnDataQueued(c.chid, l, 10, int64(20+i), true)
				case "cb-data-sent":
					_ = ev.OnDataSent(c.chid, l, 10, int64(20+i), true)
				case "cb-completed":
					_ = ev.OnChannelCompleted(c.chid, nil)
				case "cb-completed-error":
					_ = ev.OnChannelCompleted(c.chid, errors.New("late failure"))
				case "cb-request-cancelled":
					_ = ev.OnRequestCancelled(c.chid, errors.New("late"))
				case "cb-disconnected":
					_ = ev.OnRequestDisconnected(c.chid, errors.New("late"))
				case "cb-send-error":
					_ = ev.OnSendDataError(c.chid, errors.New("late"))
				case "cb-receive-error":
					_ = ev.OnReceiveDataError(c.chid, errors.New("late"))
				case "msg-restart-existing":
					r.recv().ReceiveRestartExistingChannelRequest(bg(), c.other, message.RestartExistingChannelRequest(c.chid))
				default:
					// a message of the kind the counterparty's role may send (wrong-role kinds address another channel: C05)
					isReq := strings.HasPrefix(k, "req-")
					if isReq == c.selfInit() {
						return
					}
					var m datatransfer.Message
					if k == "req-restart" || k == "req-new" {
						m = newRequestMsg(c.chid.ID, k == "req-restart", c.pull(), c.voucher, c.base, c.sel)
					} else {
						m = buildMsg(k, c.chid.ID, v, peerCid{c: c.base, pull: c.pull()})
					}
					if viaTransport && isReq {
						returned, err = r.ev().OnRequestReceived(c.chid, m.(datatransfer.Request))
						if k == "req-cancel" && err != nil {
							mfail(t, log, "C02/cancel-terminated-error", "incoming cancel for a terminated channel returned %v", err)
						}
					} else {
						deliver(r, c.other, m, viaTransport)
					}
				}
			})
			if k == "process-restart" {
				// no query here: the next stimulus meets a channel that this
				// process has not loaded yet
				log = append(log, "process restart")
				continue
			}
			r.syncAll()
			now, _ := r.vec(c.chid)
			pubs := newPubs(r, c)
			log = append(log, fmt.Sprintf("%s -> err=%v events=%v", desc, err, codesOf(pubs)))
			if len(pubs) != 0 {
				mfail(t, log, "C02/event-after-terminal", "event(s) %v published for a terminated channel after %s", codesOf(pubs), k)
			}
			if now.Full() != final.Full() || !sameBytes(raw, r.ds.Raw(storeKey(c.chid))) {
				mfail(t, log, "C02/state-changed", "terminated channel changed after %s:\n was %s\n now %s", k, final.Full(), now.Full())
			}
			switch k {
			case "api-restart":
				if err != nil || r.net.SentLen() != sent0 || r.tr.Len() != tr0 {
					mfail(t, log, "C02/restart-terminated", "restart of a terminated channel: err=%v, %d messages, %d transport calls", err, r.net.SentLen()-sent0, r.tr.Len()-tr0)
				}
			case "req-restart":
				if !c.selfInit() {
					for _, rep := range findReply(r, c.chid.ID, c.chid, sent0, tr0, returned) {
						if rep.msg.Accepted() {
							mfail(t, log, "C02/restart-request-accepted", "restart request for a terminated channel was accepted")
						}
					}
					if countKind(r.tr.Since(tr0), "open", c.chid) != 0 {
						mfail(t, log, "C02/restart-request-opened", "restart request for a terminated channel opened the transport")
					}
				}
			case "msg-restart-existing":
				if r.net.SentLen() != sent0 || countKind(r.tr.Since(tr0), "open", c.chid) != 0 {
					mfail(t, log, "C02/restart-existing-terminated", "restart-existing-channel request for a terminated channel re-issued the request")
				}
			}
		}
		// still listed with the same state
		m, err := r.mgr.InProgressChannels(bg())
		if err != nil {
			mfail(t, log, "C06/list-failed", "%v", err)
		}
		if st, ok := m[c.chid]; !ok {
			mfail(t, log, "C02/unlisted", "terminated channel not listed")
		} else if lv, _ := vecOf(st); lv.Full() != final.Full() {
			mfail(t, log, "C02/listed-state-changed", "listed state differs")
		}
		sp.Eval()
		ks := make([]string, 0, len(kinds))
		for k := range kinds {
			ks = append(ks, k)
		}
		sort.Strings(ks)
		fp := stats.FP("mgrx", role, ending, strings.Join(ks, ","), restarted)
		sp.Nontrivial(fp)
		sp.Sample(fp, map[string]any{"engine": "mgrx", "case": log})
		sp.Class("mgrx_terminal_" + datatransfer.Statuses[final.Status])
		if restarted {
			sp.Class("mgrx_with_process_restart")
		}
	})
}
