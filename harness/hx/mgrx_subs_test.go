package hx

import (
	"errors"
	"fmt"
	"strings"
	"sync"
	"testing"

	"github.com/ipld/go-ipld-prime/node/basicnode"
	"pgregory.net/rapid"

	datatransfer "github.com/filecoin-project/go-data-transfer/v2"
	"github.com/filecoin-project/go-data-transfer/v2/message"

	"verif/harness/dbl"
	"verif/harness/gen"
	"verif/harness/stats"
)

// subLog is the call log of one subscriber.
type subLog struct {
	mu      sync.Mutex
	entries []PubEntry
}

func (s *subLog) record(evt datatransfer.Event, st datatransfer.ChannelState) {
	v, err := vecOf(st)
	s.mu.Lock()
	s.entries = append(s.entries, PubEntry{Seq: dbl.NextSeq(), Code: evt.Code, Msg: evt.Message, Vec: v, VecEr: err})
	s.mu.Unlock()
}

func (s *subLog) snapshot() []PubEntry {
	s.mu.Lock()
	defer s.mu.Unlock()
	out := make([]PubEntry, len(s.entries))
	copy(out, s.entries)
	return out
}

func entryKey(e PubEntry) string {
	return fmt.Sprintf("%s|%s|%s", chidStr(e.Vec.ChannelID), datatransfer.Events[e.Code], e.Vec.Full())
}

// TestC17_Mgrx: subscribers against the datastore write log.
// noopTransportOption is a transport option that configures nothing.
func noopTransportOption(datatransfer.ChannelID, datatransfer.Transport) error { return nil }

func TestC17_Mgrx(t *testing.T) {
	sp := stats.For("C17")
	sp.SetRule("mgrx: 2..4 channels (four roles) driven by generated callbacks / API calls / messages (including ignored ones); a witness subscriber registered first, 0..3 further global subscribers subscribed and unsubscribed at generated points, per-transfer subscribers (WithSubscriber) on created channels. Ground truth independent of the notification path: the datastore write log - every applied event is exactly one changed Put, ignored events none - decoded by an independent DAG-CBOR reader. Oracle: witness log length == Puts after creation per channel and the i-th snapshot equals the i-th Put; other subscribers see exactly the witness log restricted to their (fenced) subscription window, in order, without duplicates; a per-transfer subscriber sees only its own channel, from Open to the terminal event; no call after unsubscribe returned. Non-trivial: >=2 channels interleaved and >=1 subscription change mid-history; distinct by (action sequence hash, window pattern)")
	rapid.Check(t, func(t *rapid.T) {
		r := newMgrRig(t, gen.Peer(0), dbl.NewRecDatastore(), "T/a")
		defer r.stop()
		var log []string
		nch := rapid.IntRange(2, 4).Draw(t, "channels")
		var chans []*mchan
		perTransfer := map[int]*subLog{}
		for i := 0; i < nch; i++ {
			role := rapid.SampledFrom(roles).Draw(t, "role")
			v := datatransfer.TypedVoucher{Type: "T/a", Voucher: basicnode.NewString(fmt.Sprint("v", i))}
			var c *mchan
			if (role == "createPush" || role == "createPull") && rapid.Bool().Draw(t, "withSubscriber") {
				sl := &subLog{}
				perTransfer[i] = sl
				c = &mchan{role: role, other: gen.Peer(1 + i%2), voucher: v, base: simpleCid(10 + i), sel: strNode("sel")}
				var err error
				// the subscriber option in every position relative to (optional) transport options
				opts := []datatransfer.TransferOption{datatransfer.WithSubscriber(sl.record)}
				switch rapid.SampledFrom([]string{"none", "before", "after"}).Draw(t, "transportOptions") {
				case "before":
					opts = append([]datatransfer.TransferOption{datatransfer.WithTransportOptions(noopTransportOption)}, opts...)
				case "after":
					opts = append(opts, datatransfer.WithTransportOptions(noopTransportOption))
				}
				if role == "createPush" {
					c.chid, err = r.mgr.OpenPushDataChannel(bg(), c.other, v, c.base, c.sel, opts...)
				} else {
					c.chid, err = r.mgr.OpenPullDataChannel(bg(), c.other, v, c.base, c.sel, opts...)
				}
				if err != nil {
					mfail(t, log, "HARNESS/setup", "%v", err)
				}
			} else {
				var err error
				tid := datatransfer.TransferID(1200 + i)
				if (role == "receivePush" || role == "receivePull") && len(chans) > 0 && rapid.Bool().Draw(t, "collidingTid") {
					// the remote initiator happens to choose the id of one of our own channels
					tid = chans[rapid.IntRange(0, len(chans)-1).Draw(t, "collideWith")].chid.ID
					for _, o := range chans {
						if !o.selfInit() && o.chid.ID == tid && o.other == gen.Peer(1+i%2) {
							tid = datatransfer.TransferID(1200 + i)
						}
					}
				}
				c, err = r.open(role, gen.Peer(1+i%2), tid, v, simpleCid(10+i), strNode("sel"), role == "receivePull" && rapid.Bool().Draw(t, "viaTransport"))
				if err != nil {
					mfail(t, log, "HARNESS/setup", "%v", err)
				}
			}
			chans = append(chans, c)
			log = append(log, fmt.Sprintf("open c%d %s (per-transfer subscriber=%v)", i, c, perTransfer[i] != nil))
		}
		type gsub struct {
			log        *subLog
			unsub      datatransfer.Unsubscribe
			from, to   int // window in the witness's global sequence (indexes into all entries)
			active     bool
			sizeAtStop int
		}
		var subs []*gsub
		witnessLen := func() int { return len(r.pub.allEntries()) }
		// quiesce: no event may be in flight when a subscription window opens or
		// closes (the asynchronous CleanupComplete is the only late source)
		quiesce := func() {
			for _, c := range chans {
				r.settle(c.chid)
			}
			r.syncAll()
		}
		n := rapid.IntRange(5, 40).Draw(t, "n")
		var actions []string
		changes := 0
		idx := make([]int64, nch)
		for i := 0; i < n; i++ {
			if len(subs) < 3 && rapid.IntRange(0, 9).Draw(t, "subscribe?") == 0 {
				quiesce()
				g := &gsub{log: &subLog{}, from: witnessLen(), active: true}
				g.unsub = r.mgr.SubscribeToEvents(g.log.record)
				subs = append(subs, g)
				changes++
				log = append(log, fmt.Sprintf("subscribe s%d", len(subs)-1))
				continue
			}
			if rapid.IntRange(0, 9).Draw(t, "unsubscribe?") == 0 {
				for si, g := range subs {
					if g.active {
						quiesce()
						g.unsub()
						g.active = false
						g.to = witnessLen()
						g.sizeAtStop = len(g.log.snapshot())
						changes++
						log = append(log, fmt.Sprintf("unsubscribe s%d", si))
						break
					}
				}
				continue
			}
			ci := rapid.IntRange(0, nch-1).Draw(t, "ch")
			c := chans[ci]
			act := rapid.SampledFrom([]string{"toOngoing", "report", "report", "pause", "resume", "remote-pause", "remote-resume", "voucher", "notice", "opened", "complete", "cancel", "restart-event", "bogus-accept"}).Draw(t, "act")
			actions = append(actions, fmt.Sprintf("c%d.%s", ci, act))
			ev := r.ev()
			switch act {
			case "toOngoing":
				r.toOngoing(c)
			case "report":
				idx[ci]++
				_, _ = r.report(c, idx[ci], 64, true)
			case "pause":
				_ = r.mgr.PauseDataTransferChannel(bg(), c.chid)
			case "resume":
				_ = r.mgr.ResumeDataTransferChannel(bg(), c.chid)
			case "remote-pause", "remote-resume":
				var m datatransfer.Message
				if c.selfInit() {
					m = message.UpdateResponse(c.chid.ID, act == "remote-pause")
				} else {
					m = message.UpdateRequest(c.chid.ID, act == "remote-pause")
				}
				deliver(r, c.other, m, rapid.Bool().Draw(t, "path"))
			case "voucher":
				vv := datatransfer.TypedVoucher{Type: "T/a", Voucher: basicnode.NewString("x")}
				if c.selfInit() {
					_ = r.mgr.SendVoucher(bg(), c.chid, vv)
				} else {
					_ = r.mgr.SendVoucherResult(bg(), c.chid, vv)
				}
			case "notice":
				_ = ev.OnSendDataError(c.chid, errors.New("net"))
			case "opened":
				_ = ev.OnChannelOpened(c.chid)
			case "complete":
				_ = ev.OnChannelCompleted(c.chid, nil)
			case "cancel":
				_ = r.closeCh(c.chid)
			case "restart-event":
				m, _ := message.RestartResponse(c.chid.ID, true, false, nil)
				if c.selfInit() {
					deliver(r, c.other, m, false)
				}
			case "bogus-accept":
				// an Accept in a status where it is invalid is ignored and must not be announced
				m, _ := message.NewResponse(c.chid.ID, true, false, nil)
				if c.selfInit() {
					_ = ev.OnResponseReceived(c.chid, m)
				}
			}
		}
		for _, c := range chans {
			r.settle(c.chid)
		}
		r.syncAll()
		for _, g := range subs {
			if g.active {
				g.to = witnessLen()
			}
		}
		all := r.pub.allEntries()
		wlog := r.ds.Log()
		// (1) witness vs write log
		for ci, c := range chans {
			pubs := r.pub.entries(c.chid)
			puts := putsOf(wlog, storeKey(c.chid))
			if len(puts) != len(pubs)+1 {
				mfail(t, log, "C17/publications-vs-writes", "channel c%d: %d announcements, %d Puts after creation (every applied event must be announced exactly once, ignored ones never)", ci, len(pubs), len(puts)-1)
			}
			for j, e := range pubs {
				if e.VecEr != nil {
					mfail(t, log, "C19/accessor-panic", "%v", e.VecEr)
				}
				var val []byte
				for _, it := range wlog[puts[j+1]].Items {
					if it.Key == storeKey(c.chid) {
						val = it.Value
					}
				}
				rc, err := decodeRecord(val)
				if err != nil {
					mfail(t, log, "HARNESS/decode", "decode record: %v", err)
				}
				if !sameRec(rc, e.Vec) {
					mfail(t, log, "C17/snapshot-not-resulting-state", "channel c%d announcement %d (%s): snapshot %s does not equal the state written for that event %+v", ci, j, datatransfer.Events[e.Code], e.Vec.Short(), rc)
				}
			}
			// terminal event is last
			for j, e := range pubs {
				if isTerminal(e.Vec.Status) && j != len(pubs)-1 {
					mfail(t, log, "C02/event-after-terminal", "channel c%d: announcements after the terminal one", ci)
				}
			}
		}
		// (2) other global subscribers: exactly the witness's window
		for si, g := range subs {
			// the fence channel's marker events are left out: the marker that ends
			// a window may still be on its way to later subscribers when the
			// witness has it (all earlier events have been delivered to everyone)
			var got, want []PubEntry
			for _, e := range g.log.snapshot() {
				if e.Vec.ChannelID != r.fence {
					got = append(got, e)
				}
			}
			for _, e := range all[g.from:g.to] {
				if e.Vec.ChannelID != r.fence {
					want = append(want, e)
				}
			}
			if len(got) != len(want) {
				mfail(t, log, "C17/subscriber-window", "subscriber s%d saw %d events, the witness saw %d in the same window", si, len(got), len(want))
			}
			for j := range got {
				if entryKey(got[j]) != entryKey(want[j]) {
					mfail(t, log, "C17/subscriber-order", "subscriber s%d event %d differs from the witness:\n got  %s\n want %s", si, j, entryKey(got[j]), entryKey(want[j]))
				}
			}
			if total := len(g.log.snapshot()); !g.active && total != g.sizeAtStop {
				mfail(t, log, "C17/called-after-unsubscribe", "subscriber s%d was called %d time(s) after its unsubscribe returned", si, total-g.sizeAtStop)
			}
		}
		// (3) per-transfer subscribers
		for ci, sl := range perTransfer {
			got := sl.snapshot()
			want := r.pub.entries(chans[ci].chid)
			if len(got) != len(want) {
				mfail(t, log, "C17/per-transfer-count", "per-transfer subscriber of c%d saw %d events, its channel had %d", ci, len(got), len(want))
			}
			for j := range got {
				if got[j].Vec.ChannelID != chans[ci].chid {
					mfail(t, log, "C17/per-transfer-foreign", "per-transfer subscriber of c%d received an event of %s", ci, chidStr(got[j].Vec.ChannelID))
				}
				if entryKey(got[j]) != entryKey(want[j]) {
					mfail(t, log, "C17/per-transfer-order", "per-transfer subscriber of c%d event %d differs from the witness", ci, j)
				}
			}
		}
		sp.Eval()
		if changes > 0 {
			fp := stats.FP(strings.Join(actions, ","), changes, len(perTransfer))
			sp.Nontrivial(fp)
			sp.Sample(fp, map[string]any{"engine": "mgrx", "setup": log, "actions": actions})
			sp.Class("subscription_change_mid_history")
		}
		if len(perTransfer) > 0 {
			sp.Class("with_per_transfer_subscriber")
		}
	})
}

// TestC18_Mgrx: manager lifetimes and duplicate incoming requests.
func TestC18_Mgrx(t *testing.T) {
	sp := stats.For("C18")
	sp.SetRule("mgrx: ids returned by OpenPush/OpenPull over 1..3 successive manager lifetimes on one store must be pairwise distinct and strictly increasing (also across lifetimes); duplicate new-requests (same initiator, same id; same or different parameters) injected at a generated point of the original channel's life over both entry paths, also after a process restart, must be refused and leave the existing record byte-identical. fsmx: CreateNew with an existing id. racex: concurrent opens under the race detector. Non-trivial: the duplicate arrived after progress was recorded, or >=2 lifetimes; distinct by (role, path, stage, lifetimes)")
	rapid.Check(t, func(t *rapid.T) {
		r := newMgrRig(t, gen.Peer(0), dbl.NewRecDatastore(), "T/a")
		defer r.stop()
		var log []string
		lifetimes := rapid.IntRange(1, 3).Draw(t, "lifetimes")
		var last datatransfer.TransferID
		seen := map[datatransfer.ChannelID]bool{}
		for l := 0; l < lifetimes; l++ {
			if l > 0 {
				r.restartProcess([]datatransfer.TypeIdentifier{"T/a"})
				log = append(log, "process restart")
			}
			for i := rapid.IntRange(1, 5).Draw(t, "opens"); i > 0; i-- {
				v := datatransfer.TypedVoucher{Type: "T/a", Voucher: basicnode.NewString("v")}
				var chid datatransfer.ChannelID
				var err error
				other := gen.Peer(rapid.IntRange(1, 2).Draw(t, "to"))
				if rapid.Bool().Draw(t, "pull") {
					chid, err = r.mgr.OpenPullDataChannel(bg(), other, v, simpleCid(1), strNode("sel"))
				} else {
					chid, err = r.mgr.OpenPushDataChannel(bg(), other, v, simpleCid(1), strNode("sel"))
				}
				if err != nil {
					mfail(t, log, "HARNESS/setup", "open: %v", err)
				}
				log = append(log, fmt.Sprintf("lifetime %d open -> id %d", l, chid.ID))
				if seen[chid] {
					mfail(t, log, "C18/duplicate-id", "channel id %s issued twice", chidStr(chid))
				}
				seen[chid] = true
				if chid.ID <= last || chid.ID <= r.fence.ID {
					mfail(t, log, "C18/id-not-increasing", "transfer id %d issued after %d", chid.ID, last)
				}
				last = chid.ID
			}
		}
		// duplicate incoming request
		c := openAny(t, r, &log, "orig", 1300, gen.Peer(1))
		dupChecked := false
		if !c.selfInit() {
			if rapid.Bool().Draw(t, "restartBeforeDuplicate") {
				r.restartProcess([]datatransfer.TypeIdentifier{"T/a"})
				log = append(log, "process restart")
			}
			r.syncAll()
			before, _ := r.vec(c.chid)
			raw := r.ds.Raw(storeKey(c.chid))
			c.pubSeen = r.pub.count(c.chid)
			v, base := c.voucher, c.base
			if rapid.Bool().Draw(t, "differentParams") {
				v = datatransfer.TypedVoucher{Type: "T/a", Voucher: basicnode.NewString("other")}
				base = simpleCid(77)
			}
			viaTransport := c.pull() && rapid.Bool().Draw(t, "dupViaTransport")
			// what the validator says about the duplicate makes no difference to the existing channel
			switch rapid.SampledFrom([]string{"accepts", "accepts", "rejects", "errors"}).Draw(t, "validatorOnDuplicate") {
			case "rejects":
				r.vals["T/a"].Push(dbl.Outcome{Result: datatransfer.ValidationResult{Accepted: false}})
				log = append(log, "the validator rejects the duplicate")
			case "errors":
				r.vals["T/a"].Push(dbl.Outcome{Result: datatransfer.ValidationResult{Accepted: false}, Err: errors.New("validator failed")})
				log = append(log, "the validator fails on the duplicate")
			}
			req := newRequestMsg(c.chid.ID, false, c.pull(), v, base, c.sel)
			sent0, tr0 := r.net.SentLen(), r.tr.Len()
			var returned datatransfer.Response
			var retErr error
			desc := fmt.Sprintf("duplicate new request for %s via transport=%v", chidStr(c.chid), viaTransport)
			log = append(log, desc)
			guard(t, &log, "C04/panic", desc, func() {
				if viaTransport {
					returned, retErr = r.ev().OnRequestReceived(c.chid, req)
				} else {
					r.recv().ReceiveRequest(bg(), c.other, req)
				}
			})
			r.syncAll()
			after, _ := r.vec(c.chid)
			pubs := newPubs(r, c)
			if after.Full() != before.Full() || !sameBytes(raw, r.ds.Raw(storeKey(c.chid))) || len(pubs) != 0 {
				mfail(t, log, "C18/duplicate-request-disturbed", "duplicate request changed the existing channel: events %v\n before %s\n after  %s", codesOf(pubs), before.Full(), after.Full())
			}
			for _, rep := range findReply(r, c.chid.ID, c.chid, sent0, tr0, returned) {
				if rep.msg.Accepted() {
					mfail(t, log, "C18/duplicate-request-accepted", "duplicate request was accepted")
				}
			}
			if viaTransport && (retErr == nil || retErr == datatransfer.ErrPause) {
				mfail(t, log, "C18/duplicate-request-accepted", "duplicate request returned %v to the transport", retErr)
			}
			if countKind(r.tr.Since(tr0), "open", c.chid) != 0 {
				mfail(t, log, "C18/duplicate-request-opened", "duplicate request opened the transport")
			}
			dupChecked = before.Queued+before.Received > 0
		}
		sp.Eval()
		if dupChecked || lifetimes > 1 {
			fp := stats.FP("mgrx", c.role, lifetimes, dupChecked)
			sp.Nontrivial(fp)
			sp.Sample(fp, map[string]any{"engine": "mgrx", "case": log})
		}
		if lifetimes > 1 {
			sp.Class("several_manager_lifetimes")
		}
		if dupChecked {
			sp.Class("duplicate_request_after_progress")
		}
	})
}

// TestC20_MgrxFailingOption: a transport option that fails makes the open fail - and
// nothing else: other channels still clean up, and Stop returns.
func TestC20_MgrxFailingOption(t *testing.T) {
	sp := stats.For("C20")
	rapid.Check(t, func(t *rapid.T) {
		r := newMgrRig(t, gen.Peer(0), dbl.NewRecDatastore(), "T/a")
		stopped := false
		defer func() {
			if !stopped {
				// (a failure above may leave the manager unable to stop: do not wait for ever)
				within(func() { r.stop() })
			}
		}()
		var log []string
		role := rapid.SampledFrom(roles).Draw(t, "otherChannelRole")
		other := openRole(t, r, &log, role, 1300, false)
		failing := func(datatransfer.ChannelID, datatransfer.Transport) error { return errors.New("option failed") }
		n := rapid.IntRange(1, 3).Draw(t, "failingOpens")
		for i := 0; i < n; i++ {
			pull := rapid.Bool().Draw(t, "pull")
			opts := []datatransfer.TransferOption{datatransfer.WithTransportOptions(noopTransportOption, failing)}
			v := datatransfer.TypedVoucher{Type: "T/a", Voucher: basicnode.NewString("v")}
			var err error
			ok := within(func() {
				if pull {
					_, err = r.mgr.OpenPullDataChannel(bg(), gen.Peer(2), v, simpleCid(9), strNode("sel"), opts...)
				} else {
					_, err = r.mgr.OpenPushDataChannel(bg(), gen.Peer(2), v, simpleCid(9), strNode("sel"), opts...)
				}
			})
			log = append(log, fmt.Sprintf("open (pull=%v) with a transport option that fails -> returned=%v err=%v", pull, ok, err))
			if !ok {
				mfail(t, log, "C20/open-blocked", "an open with a failing transport option did not return within %s", watchdog)
			}
			if err == nil {
				mfail(t, log, "C16/failing-option-ignored", "an open whose transport option failed returned nil")
			}
		}
		// another channel still ends and cleans up
		var cerr error
		if !within(func() { cerr = r.closeCh(other.chid) }) {
			mfail(t, log, "C20/close-blocked", "closing another channel blocks after an open whose transport option failed")
		}
		if st, ok := r.settle(other.chid); !ok || st == nil || !isTerminal(st.Status()) {
			status := "unknown (the state query did not return)"
			if st != nil {
				status = datatransfer.Statuses[st.Status()]
			}
			mfail(t, log, "C20/cleanup-blocked-after-failed-option", "another channel does not finish its cleanup after an open whose transport option failed (close err=%v, status %s)", cerr, status)
		}
		// and Stop returns
		stopped = true
		if !within(func() { r.stop() }) {
			mfail(t, log, "C20/stop-hang", "Stop did not return within %s after an open whose transport option failed", watchdog)
		}
		sp.Eval()
		sp.Nontrivial(stats.FP("failing-option", role, n))
		sp.Class("mgrx_failing_transport_option")
	})
}
