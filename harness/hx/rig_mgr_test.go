package hx

import (
	"context"
	"errors"
	"fmt"
	"runtime"
	"time"

	"github.com/ipfs/go-cid"
	"github.com/ipld/go-ipld-prime/datamodel"
	cidlink "github.com/ipld/go-ipld-prime/linking/cid"
	"github.com/ipld/go-ipld-prime/node/basicnode"
	"github.com/libp2p/go-libp2p/core/peer"

	datatransfer "github.com/filecoin-project/go-data-transfer/v2"
	dtimpl "github.com/filecoin-project/go-data-transfer/v2/impl"
	"github.com/filecoin-project/go-data-transfer/v2/message"
	"github.com/filecoin-project/go-data-transfer/v2/network"

	"verif/harness/dbl"
	"verif/harness/gen"
)

// closer is the part of the manager reached by interface assertion.
type closer interface {
	CloseDataTransferChannelWithError(ctx context.Context, chid datatransfer.ChannelID, cherr error) error
}

// mgrRig is one real manager over recording doubles.
type mgrRig struct {
	t     fataler
	self  peer.ID
	ds    *dbl.RecDatastore
	tr    *dbl.Transport
	net   *dbl.Network
	mgr   datatransfer.Manager
	pub   *PubLog
	vals  map[datatransfer.TypeIdentifier]*dbl.Validator
	fence datatransfer.ChannelID
	// number of manager lifetimes so far
	lifetimes int
	unsub     datatransfer.Unsubscribe
	opts      []dtimpl.DataTransferOption
	// validators whose registration was refused (the type was taken)
	impostors map[datatransfer.TypeIdentifier]*dbl.Validator
}

func newMgrRig(t fataler, self peer.ID, ds *dbl.RecDatastore, types ...datatransfer.TypeIdentifier) *mgrRig {
	r := &mgrRig{t: t, self: self, ds: ds, tr: dbl.NewTransport(), net: dbl.NewNetwork(self), pub: newPubLog(), vals: map[datatransfer.TypeIdentifier]*dbl.Validator{}}
	r.start(types)
	return r
}

// newMgrRigOpts is newMgrRig with manager options (e.g. the channel monitor configuration).
func newMgrRigOpts(t fataler, self peer.ID, ds *dbl.RecDatastore, opts []dtimpl.DataTransferOption, types ...datatransfer.TypeIdentifier) *mgrRig {
	r := &mgrRig{t: t, self: self, ds: ds, tr: dbl.NewTransport(), net: dbl.NewNetwork(self), pub: newPubLog(), vals: map[datatransfer.TypeIdentifier]*dbl.Validator{}, opts: opts}
	r.start(types)
	return r
}

func bg() context.Context { return context.Background() }

func wctx() (context.Context, context.CancelFunc) {
	return context.WithTimeout(context.Background(), watchdog)
}

// start creates a manager lifetime on the rig's datastore and doubles.
func (r *mgrRig) start(types []datatransfer.TypeIdentifier) {
	r.t.Helper()
	mgr, err := dtimpl.NewDataTransfer(r.ds, r.net, r.tr, r.opts...)
	if err != nil {
		r.t.Fatalf("HARNESS NewDataTransfer: %v", err)
	}
	r.mgr = mgr
	r.lifetimes++
	for _, typ := range types {
		v := r.vals[typ]
		if v == nil {
			v = dbl.NewValidator(typ)
			r.vals[typ] = v
		}
		if err := mgr.RegisterVoucherType(typ, v); err != nil {
			r.t.Fatalf("HARNESS RegisterVoucherType(%q): %v", typ, err)
		}
		// a second registration for the same type is refused and changes nothing: the
		// impostor must never be consulted
		if r.impostors == nil {
			r.impostors = map[datatransfer.TypeIdentifier]*dbl.Validator{}
		}
		imp := r.impostors[typ]
		if imp == nil {
			imp = dbl.NewValidator(typ)
			r.impostors[typ] = imp
		}
		if err := mgr.RegisterVoucherType(typ, imp); err == nil {
			r.t.Fatalf("VIOLATION-KEY=C04/duplicate-registration-accepted a second validator was registered for voucher type %q", typ)
		}
	}
	ready := make(chan error, 4)
	mgr.OnReady(func(err error) { ready <- err })
	r.unsub = mgr.SubscribeToEvents(r.pub.record)
	if err := mgr.Start(bg()); err != nil {
		r.t.Fatalf("HARNESS manager Start: %v", err)
	}
	select {
	case err := <-ready:
		if err != nil {
			r.t.Fatalf("HARNESS manager ready with error: %v", err)
		}
	case <-time.After(watchdog):
		r.t.Fatalf("HARNESS manager not ready after %s", watchdog)
	}
	if (r.fence == datatransfer.ChannelID{}) {
		if len(r.opts) > 0 && len(types) > 0 {
			// A channel monitor may be configured (with accept / complete timeouts of milliseconds):
			// it watches the channels this node initiates. The fence channel must never be ended by
			// it, so here it is a channel the node responds to: an incoming push from a peer of its own.
			tid := datatransfer.TransferID(0xfe0ce)
			chid := datatransfer.ChannelID{Initiator: gen.Peer(15), Responder: r.self, ID: tid}
			req := newRequestMsg(tid, false, false, datatransfer.TypedVoucher{Type: types[0], Voucher: basicnode.NewString("fence")}, gen.CidOf([]byte("fence")), basicnode.NewString("fence"))
			r.net.Delegate().ReceiveRequest(bg(), gen.Peer(15), req)
			r.fence = chid
			if _, err := r.flush(chid); err != nil {
				r.t.Fatalf("HARNESS open fence channel (responder side): %v", err)
			}
			if !r.pub.waitCount(chid, 2, watchdog) {
				r.t.Fatalf("HARNESS fence channel Open / Accept not delivered")
			}
			return
		}
		chid, err := mgr.OpenPushDataChannel(bg(), gen.Peer(15), datatransfer.TypedVoucher{Type: "fence", Voucher: basicnode.NewString("fence")}, gen.CidOf([]byte("fence")), basicnode.NewString("fence"))
		if err != nil {
			r.t.Fatalf("HARNESS open fence channel: %v", err)
		}
		r.fence = chid
		// the fence channel's own Open event is asynchronous: consume it now so
		// that fenceWait only ever counts its marker events
		_, _ = r.flush(chid)
		if !r.pub.waitCount(chid, 1, watchdog) {
			r.t.Fatalf("HARNESS fence channel Open not delivered")
		}
	}
}

func (r *mgrRig) ev() datatransfer.EventsHandler { return r.mgr.(datatransfer.EventsHandler) }
func (r *mgrRig) recv() network.Receiver         { return r.net.Delegate() }

func (r *mgrRig) flush(chid datatransfer.ChannelID) (datatransfer.ChannelState, error) {
	ctx, cancel := wctx()
	defer cancel()
	return r.mgr.ChannelState(ctx, chid)
}

func (r *mgrRig) fenceWait() {
	r.t.Helper()
	n := r.pub.count(r.fence)
	if err := r.ev().OnRequestDisconnected(r.fence, errors.New("fence")); err != nil {
		r.t.Fatalf("HARNESS fence send: %v", err)
	}
	if !r.pub.waitCount(r.fence, n+1, watchdog) {
		r.t.Fatalf("HARNESS fence notification not delivered within %s", watchdog)
	}
}

func (r *mgrRig) sync(chid datatransfer.ChannelID) datatransfer.ChannelState {
	r.t.Helper()
	st, _ := r.flush(chid)
	r.fenceWait()
	return st
}

// syncAll flushes every known channel and fences.
// closeCh closes a channel through the API and waits until the close's
// asynchronous cancel send has reached the network double (the manager sends
// it from a goroutine of its own; reading the message log earlier is a race
// of the harness, not of the library).
func (r *mgrRig) closeCh(chid datatransfer.ChannelID) error {
	sent0 := r.net.SentLen()
	err := r.mgr.CloseDataTransferChannel(bg(), chid)
	if err != nil {
		return err
	}
	deadline := time.Now().Add(watchdog)
	for time.Now().Before(deadline) {
		for _, s := range r.net.SentSince(sent0) {
			if s.Msg.IsCancel() {
				return nil
			}
		}
		time.Sleep(50 * time.Microsecond)
	}
	return nil
}

// impostorCalls counts the validator calls that went to a validator whose registration was refused.
func (r *mgrRig) impostorCalls() int {
	n := 0
	for _, imp := range r.impostors {
		n += imp.Len()
	}
	return n
}

func (r *mgrRig) syncAll() {
	ctx, cancel := wctx()
	defer cancel()
	m, err := r.mgr.InProgressChannels(ctx)
	if err == nil {
		for chid := range m {
			_, _ = r.flush(chid)
		}
	}
	r.fenceWait()
}

func (r *mgrRig) settle(chid datatransfer.ChannelID) (datatransfer.ChannelState, bool) {
	deadline := time.Now().Add(watchdog)
	for {
		st, err := r.flush(chid)
		if err != nil {
			return nil, false
		}
		if !isCleanup(st.Status()) {
			return st, true
		}
		if time.Now().After(deadline) {
			return st, false
		}
		runtime.Gosched()
		time.Sleep(20 * time.Microsecond)
	}
}

// vec reads the current vector of a channel (after flushing).
// settleTerminal polls until the channel is in a terminal status (or the watchdog expires).
func (r *mgrRig) settleTerminal(chid datatransfer.ChannelID) (datatransfer.ChannelState, bool) {
	deadline := time.Now().Add(watchdog)
	for {
		st, err := r.flush(chid)
		if err != nil {
			return nil, false
		}
		if isTerminal(st.Status()) {
			return st, true
		}
		if time.Now().After(deadline) {
			return st, false
		}
		time.Sleep(200 * time.Microsecond)
	}
}

func (r *mgrRig) vec(chid datatransfer.ChannelID) (Vec, error) {
	st, err := r.flush(chid)
	if err != nil {
		return Vec{}, err
	}
	v, verr := vecOf(st)
	return v, verr
}

func (r *mgrRig) stop() {
	ctx, cancel := wctx()
	defer cancel()
	if r.unsub != nil {
		r.unsub()
		r.unsub = nil
	}
	_ = r.mgr.Stop(ctx)
}

// restartProcess stops the manager and starts a new one on the same store.
func (r *mgrRig) restartProcess(types []datatransfer.TypeIdentifier) {
	r.t.Helper()
	r.syncAll()
	r.stop()
	r.start(types)
}

// ---------------------------------------------------------------------------
// channel descriptions

type mchan struct {
	role     string // createPush createPull receivePush receivePull
	chid     datatransfer.ChannelID
	other    peer.ID
	voucher  datatransfer.TypedVoucher
	extra    []datatransfer.TypedVoucher // further vouchers sent after the opening one
	base     cid.Cid
	sel      datamodel.Node
	pubSeen  int
	viaTrans bool // request entered through the transport (pull) rather than the network
}

func (c *mchan) selfInit() bool { return c.role == "createPush" || c.role == "createPull" }
func (c *mchan) pull() bool     { return c.role == "createPull" || c.role == "receivePull" }

// localSender says whether the local node sends the data.
func (c *mchan) localSender() bool { return c.role == "createPush" || c.role == "receivePull" }

func (c *mchan) String() string {
	return fmt.Sprintf("%s %s v=%s base=%s", c.role, chidStr(c.chid), gen.VoucherStr(c.voucher), c.base)
}

var roles = []string{"createPush", "createPull", "receivePush", "receivePull"}

// newRequestMsg builds the request the initiator of c sends.
func newRequestMsg(tid datatransfer.TransferID, restart, pull bool, v datatransfer.TypedVoucher, base cid.Cid, sel datamodel.Node) datatransfer.Request {
	req, err := message.NewRequest(tid, restart, pull, &v, base, sel)
	if err != nil {
		panic(err)
	}
	return req
}

// open creates a channel in the given role with an accepting validator outcome already queued by the caller.
func (r *mgrRig) open(role string, other peer.ID, tid datatransfer.TransferID, v datatransfer.TypedVoucher, base cid.Cid, sel datamodel.Node, viaTransport bool) (*mchan, error) {
	c := &mchan{role: role, other: other, voucher: v, base: base, sel: sel, viaTrans: viaTransport}
	var err error
	switch role {
	case "createPush":
		c.chid, err = r.mgr.OpenPushDataChannel(bg(), other, v, base, sel)
	case "createPull":
		c.chid, err = r.mgr.OpenPullDataChannel(bg(), other, v, base, sel)
	case "receivePush", "receivePull":
		c.chid = datatransfer.ChannelID{Initiator: other, Responder: r.self, ID: tid}
		req := newRequestMsg(tid, false, role == "receivePull", v, base, sel)
		if viaTransport {
			_, err = r.ev().OnRequestReceived(c.chid, req)
			if err == datatransfer.ErrPause {
				err = nil
			}
		} else {
			r.recv().ReceiveRequest(bg(), other, req)
		}
	}
	return c, err
}

var linkOf = func(c cid.Cid) cidlink.Link { return cidlink.Link{Cid: c} }

// toOngoing drives an opened channel to Ongoing through the callbacks its role would see.
func (r *mgrRig) toOngoing(c *mchan) {
	ev := r.ev()
	switch c.role {
	case "createPush":
		resp, _ := message.NewResponse(c.chid.ID, true, false, nil)
		_ = ev.OnResponseReceived(c.chid, resp)
		ev.OnTransferInitiated(c.chid)
	case "createPull":
		_ = ev.OnChannelOpened(c.chid)
		ev.OnTransferInitiated(c.chid)
		resp, _ := message.NewResponse(c.chid.ID, true, false, nil)
		_ = ev.OnResponseReceived(c.chid, resp)
	case "receivePush":
		_ = ev.OnChannelOpened(c.chid)
		ev.OnTransferInitiated(c.chid)
	case "receivePull":
		ev.OnTransferInitiated(c.chid)
	}
}

// report delivers one block report in the direction of the local role.
// For a sender the block is queued and sent.
func (r *mgrRig) report(c *mchan, idx int64, size uint64, unique bool) (datatransfer.Message, error) {
	ev := r.ev()
	l := linkOf(gen.CidOf([]byte{byte(idx), byte(idx >> 8)}))
	if c.localSender() {
		msg, err := ev.OnDataQueued(c.chid, l, size, idx, unique)
		if err == nil || err == datatransfer.ErrPause {
			_ = ev.OnDataSent(c.chid, l, size, idx, unique)
		}
		return msg, err
	}
	return nil, ev.OnDataReceived(c.chid, l, size, idx, unique)
}
