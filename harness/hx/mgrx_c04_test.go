package hx

import (
	"errors"
	"fmt"
	"os"
	"strings"
	"testing"

	"github.com/ipld/go-ipld-prime/datamodel"
	"pgregory.net/rapid"

	datatransfer "github.com/filecoin-project/go-data-transfer/v2"

	"verif/harness/dbl"
	"verif/harness/gen"
	"verif/harness/stats"
)

var typePool = []datatransfer.TypeIdentifier{"T/a", "T/b", "T/c"}

// mfail aborts a mgrx case with a keyed violation.
func mfail(t *rapid.T, log []string, key, format string, args ...any) {
	var b strings.Builder
	fmt.Fprintf(&b, "VIOLATION-KEY=%s %s\ncase:\n", key, fmt.Sprintf(format, args...))
	for _, l := range log {
		fmt.Fprintf(&b, "  %s\n", l)
	}
	t.Fatalf("%s", b.String())
}

// guard runs f (library calls only) and converts a panic into a keyed violation.
func guard(t *rapid.T, log *[]string, key, what string, f func()) {
	defer func() {
		if r := recover(); r != nil {
			mfail(t, *log, key, "%s panicked: %v", what, r)
		}
	}()
	f()
}

func drawOutcome(t *rapid.T, label string) dbl.Outcome {
	var o dbl.Outcome
	switch rapid.IntRange(0, 5).Draw(t, label+".kind") {
	case 0, 1, 2:
		o.Result.Accepted = true
	case 3:
		o.Result.Accepted = false
	case 4:
		o.Result.Accepted = rapid.Bool().Draw(t, label+".accWithErr")
		o.Err = errors.New("validator broke")
	case 5:
		o.Result.Accepted = false
	}
	if rapid.Bool().Draw(t, label+".hasVR") {
		v := gen.SmallVoucher().Draw(t, label+".vr")
		o.Result.VoucherResult = &v
	}
	o.Result.ForcePause = rapid.IntRange(0, 3).Draw(t, label+".fp") == 0
	switch rapid.IntRange(0, 2).Draw(t, label+".lim") {
	case 1:
		o.Result.DataLimit = uint64(rapid.IntRange(1, 5000).Draw(t, label+".limv"))
	case 2:
		o.Result.DataLimit = 1 << 40
	}
	o.Result.RequiresFinalization = rapid.IntRange(0, 2).Draw(t, label+".fin") == 0
	return o
}

func outcomeStr(o dbl.Outcome) string {
	vr := "-"
	if o.Result.VoucherResult != nil {
		vr = gen.VoucherStr(*o.Result.VoucherResult)
	}
	return fmt.Sprintf("{acc=%v err=%v vr=%s force=%v lim=%d fin=%v}", o.Result.Accepted, o.Err != nil, vr, o.Result.ForcePause, o.Result.DataLimit, o.Result.RequiresFinalization)
}

func outcomeAccepts(o dbl.Outcome) bool { return o.Result.Accepted && o.Err == nil }

// replyOf finds the response produced for a request: returned by the transport
// path, sent on the network, or attached to a transport open / resume.
type reply struct {
	msg   datatransfer.Response
	where string
}

func findReply(r *mgrRig, tid datatransfer.TransferID, to datatransfer.ChannelID, sentFrom, trFrom int, returned datatransfer.Response) []reply {
	var out []reply
	if returned != nil {
		out = append(out, reply{returned, "returned"})
	}
	for _, s := range r.net.SentSince(sentFrom) {
		if resp, ok := s.Msg.(datatransfer.Response); ok && !s.Msg.IsRequest() && s.Msg.TransferID() == tid && s.To == to.Initiator {
			out = append(out, reply{resp, "sent"})
		}
	}
	for _, c := range r.tr.Since(trFrom) {
		if c.Msg != nil && !c.Msg.IsRequest() && c.Chid == to {
			if resp, ok := c.Msg.(datatransfer.Response); ok {
				out = append(out, reply{resp, "transport-" + c.Kind})
			}
		}
	}
	return out
}

func countKind(calls []dbl.TCall, kind string, chid datatransfer.ChannelID) int {
	n := 0
	for _, c := range calls {
		if c.Kind == kind && c.Chid == chid {
			n++
		}
	}
	return n
}

func totalValidatorCalls(r *mgrRig) int {
	n := 0
	for _, v := range r.vals {
		n += v.Len()
	}
	return n
}

func inProgressKeys(t *rapid.T, r *mgrRig, log []string) map[datatransfer.ChannelID]datatransfer.ChannelState {
	m, err := r.mgr.InProgressChannels(bg())
	if err != nil {
		mfail(t, log, "C06/list-failed", "InProgressChannels: %v", err)
	}
	delete(m, r.fence)
	return m
}

func voucherResultOf(t *rapid.T, log []string, resp datatransfer.Response) string {
	if resp.EmptyVoucherResult() {
		return "-"
	}
	n, err := resp.VoucherResult()
	if err != nil {
		return "err:" + err.Error()
	}
	return gen.VoucherStr(datatransfer.TypedVoucher{Type: resp.VoucherResultType(), Voucher: n})
}

func wantVoucherResult(o dbl.Outcome) string {
	if o.Result.VoucherResult == nil || o.Result.VoucherResult.Type == datatransfer.EmptyTypeIdentifier {
		return "-"
	}
	return gen.VoucherStr(*o.Result.VoucherResult)
}

// TestC04_MgrxNew: new requests x registry contents x validator outcomes x entry paths.
func TestC04_MgrxNew(t *testing.T) {
	sp := stats.For("C04")
	sp.SetRule("mgrx responder: registry of 0..3 voucher types with scripted validators returning generated (Accepted, VoucherResult, ForcePause, DataLimit, RequiresFinalization, err) per call; 1..6 new requests (push/pull x network/transport entry path x voucher type registered/unregistered/empty x voucher present/missing x selector present/missing), restart requests on accepted channels at random progress (optionally after a process restart with a registry lacking the type) and UpdateValidationStatus calls. Oracle: non-interference - an acceptance effect (channel created, transport opened, reply Accepted, limit recorded) implies a logged validator call for exactly this request that accepted without error; otherwise not-accepted reply, no channel, transport closed, Failed for rejections; reply carries exactly the validator's result. Non-trivial: the case has >=1 accepting and >=1 non-accepting outcome; distinct by the outcome vector")
	rapid.Check(t, func(t *rapid.T) {
		nTypes := rapid.SampledFrom([]int{0, 1, 2, 3, 3, 3}).Draw(t, "nTypes")
		types := typePool[:nTypes]
		r := newMgrRig(t, gen.Peer(0), dbl.NewRecDatastore(), types...)
		defer r.stop()
		var log []string
		var vector []string
		sawAccept, sawRefuse := false, false
		n := rapid.IntRange(1, 6).Draw(t, "requests")
		for i := 0; i < n; i++ {
			other := gen.Peer(rapid.IntRange(1, 3).Draw(t, "other"))
			tid := datatransfer.TransferID(100 + i)
			pull := rapid.Bool().Draw(t, "pull")
			viaTransport := pull && rapid.Bool().Draw(t, "viaTransport")
			typ := rapid.SampledFrom([]datatransfer.TypeIdentifier{"T/a", "T/a", "T/b", "T/c", "T/zz", ""}).Draw(t, "type")
			if nTypes > 0 && rapid.Bool().Draw(t, "forceRegistered") {
				typ = types[rapid.IntRange(0, nTypes-1).Draw(t, "regType")]
			}
			var vnode datamodel.Node = gen.SmallNode().Draw(t, "voucher")
			if rapid.IntRange(0, 7).Draw(t, "noVoucher") == 0 {
				vnode = nil
			}
			var sel datamodel.Node = strNode("sel")
			if rapid.IntRange(0, 7).Draw(t, "noSelector") == 0 {
				sel = nil
			}
			base := gen.SimpleCid().Draw(t, "base")
			out := drawOutcome(t, "outcome")
			registered := false
			for _, x := range types {
				if x == typ {
					registered = true
				}
			}
			consulted := registered && vnode != nil && sel != nil
			if consulted {
				r.vals[typ].Push(out)
			}
			accepted := consulted && outcomeAccepts(out)
			chid := datatransfer.ChannelID{Initiator: other, Responder: r.self, ID: tid}
			desc := fmt.Sprintf("new %s request tid=%d from %s type=%q voucher=%s selector=%v via=%s registered=%v outcome=%s",
				map[bool]string{true: "pull", false: "push"}[pull], tid, gen.PeerName(other), typ, gen.EncHex(vnode), sel != nil, map[bool]string{true: "transport", false: "network"}[viaTransport], registered, outcomeStr(out))
			log = append(log, desc)
			before := inProgressKeys(t, r, log)
			sent0, tr0, val0 := r.net.SentLen(), r.tr.Len(), totalValidatorCalls(r)
			req := newRequestMsg(tid, false, pull, datatransfer.TypedVoucher{Type: typ, Voucher: vnode}, base, sel)
			var returned datatransfer.Response
			var retErr error
			guard(t, &log, "C04/panic", "delivering "+desc, func() {
				if viaTransport {
					returned, retErr = r.ev().OnRequestReceived(chid, req)
				} else {
					r.recv().ReceiveRequest(bg(), other, req)
				}
			})
			r.sync(chid)
			after := inProgressKeys(t, r, log)
			calls := r.tr.Since(tr0)
			replies := findReply(r, tid, chid, sent0, tr0, returned)
			_, created := after[chid]
			opens := countKind(calls, "open", chid)
			vcalls := totalValidatorCalls(r) - val0
			if r.impostorCalls() > 0 {
				mfail(t, log, "C04/refused-registration-consulted", "a validator whose registration was refused (the voucher type was already registered) was consulted %d time(s)", r.impostorCalls())
			}
			log = append(log, fmt.Sprintf("  -> created=%v opens=%d closes=%d pauses=%d replies=%d validatorCalls=%d retErr=%v", created, opens, countKind(calls, "close", chid), countKind(calls, "pause", chid), len(replies), vcalls, retErr))
			// (i) non-interference
			if !consulted && vcalls != 0 {
				mfail(t, log, "C04/validator-consulted-unexpectedly", "validator was called for a request it cannot validate")
			}
			if consulted {
				if vcalls != 1 {
					mfail(t, log, "C04/validator-call-count", "%d validator calls for one request", vcalls)
				}
				vc := r.vals[typ].Calls()
				c := vc[len(vc)-1]
				wantKind := "push"
				if pull {
					wantKind = "pull"
				}
				if c.Kind != wantKind || c.Chid != chid || c.Peer != other || !gen.NodesEqual(c.Voucher, vnode) || c.Base != base || !gen.NodesEqual(c.Selector, sel) {
					mfail(t, log, "C04/validator-arguments", "validator consulted with other arguments: kind=%s chid=%s peer=%s voucher=%s base=%s", c.Kind, chidStr(c.Chid), gen.PeerName(c.Peer), gen.EncHex(c.Voucher), c.Base)
				}
			}
			if len(replies) != 1 {
				mfail(t, log, "C04/reply-count", "%d replies for one request", len(replies))
			}
			rep := replies[0].msg
			if rep.Accepted() != accepted {
				mfail(t, log, "C04/reply-accepted-flag", "reply says Accepted=%v, validation accepted=%v", rep.Accepted(), accepted)
			}
			if !rep.IsNew() || rep.TransferID() != tid {
				mfail(t, log, "C04/reply-kind", "reply is not a new-response for transfer %d", tid)
			}
			if created != accepted {
				mfail(t, log, "C04/channel-created", "channel created=%v although validation accepted=%v", created, accepted)
			}
			if len(after) != len(before)+map[bool]int{true: 1, false: 0}[accepted] {
				mfail(t, log, "C04/channel-set", "channel set went from %d to %d entries", len(before), len(after))
			}
			wantOpens := 0
			if accepted && !pull {
				wantOpens = 1
			}
			if opens != wantOpens {
				mfail(t, log, "C04/transport-open", "%d transport opens, want %d", opens, wantOpens)
			}
			if !accepted {
				sawRefuse = true
				// (ii) refused: transport closed (network path) or error returned (transport path)
				if viaTransport {
					if retErr == nil || retErr == datatransfer.ErrPause || retErr == datatransfer.ErrResume {
						mfail(t, log, "C04/refusal-not-signalled", "refused request returned %v to the transport", retErr)
					}
				} else if countKind(calls, "close", chid) == 0 {
					mfail(t, log, "C04/transport-not-closed", "refused request did not close the transport channel")
				}
				vector = append(vector, "refuse")
				continue
			}
			sawAccept = true
			vector = append(vector, outcomeStr(out))
			// (iii) accepted: reply carries exactly the validator's result
			if got, want := voucherResultOf(t, log, rep), wantVoucherResult(out); got != want {
				mfail(t, log, "C04/reply-voucher-result", "reply carries voucher result %s, validator returned %s", got, want)
			}
			if rep.IsPaused() != out.Result.ForcePause {
				mfail(t, log, "C04/reply-pause", "reply paused=%v, validator ForcePause=%v", rep.IsPaused(), out.Result.ForcePause)
			}
			v, verr := vecOf(after[chid])
			if verr != nil {
				mfail(t, log, "C19/accessor-panic", "%v", verr)
			}
			if v.DataLimit != out.Result.DataLimit || v.ReqFinal != out.Result.RequiresFinalization {
				mfail(t, log, "C04/limit-not-recorded", "channel records limit=%d finalization=%v, validator said %d/%v", v.DataLimit, v.ReqFinal, out.Result.DataLimit, out.Result.RequiresFinalization)
			}
			if v.RespPaused != out.Result.ForcePause {
				mfail(t, log, "C04/pause-not-recorded", "channel ResponderPaused=%v, validator ForcePause=%v", v.RespPaused, out.Result.ForcePause)
			}
			if out.Result.ForcePause {
				if viaTransport {
					if retErr != datatransfer.ErrPause {
						mfail(t, log, "C04/pause-not-signalled", "ForcePause but transport got %v", retErr)
					}
				} else if countKind(calls, "pause", chid) != 1 {
					mfail(t, log, "C04/pause-not-applied", "ForcePause but transport PauseChannel calls = %d", countKind(calls, "pause", chid))
				}
			} else if retErr != nil {
				mfail(t, log, "C04/accepted-with-error", "accepted request returned %v to the transport", retErr)
			}
			wantVR := 0
			if out.Result.VoucherResult != nil && out.Result.VoucherResult.Voucher != nil {
				wantVR = 1
			}
			if len(v.Results) != wantVR || (wantVR == 1 && v.Results[0] != gen.VoucherStr(*out.Result.VoucherResult)) {
				mfail(t, log, "C19/result-not-recorded", "channel voucher results %v, validator returned %s", v.Results, wantVoucherResult(out))
			}
			if v.Voucher != gen.VoucherStr(datatransfer.TypedVoucher{Type: typ, Voucher: vnode}) || v.BaseCID != base.String() || v.IsPull != pull || v.ChannelID != chid {
				mfail(t, log, "C04/channel-identity", "created channel does not match the request: %s", v.Core())
			}
			if !v.Status.IsAccepted() {
				mfail(t, log, "C04/not-accepted-status", "accepted request left status %s", datatransfer.Statuses[v.Status])
			}
		}
		sp.Eval()
		if sawAccept && sawRefuse {
			fp := stats.FP("new", strings.Join(vector, ";"))
			sp.Nontrivial(fp)
			sp.Sample(fp, map[string]any{"engine": "mgrx", "kind": "new requests", "registered_types": types, "case": log})
		}
		if sawAccept {
			sp.Class("has_accepting_outcome")
		}
		if sawRefuse {
			sp.Class("has_refusing_outcome")
		}
	})
}

// wantStayPaused is the reference form of "leave the request paused".
func wantStayPaused(res datatransfer.ValidationResult, v Vec) bool {
	if res.ForcePause {
		return true
	}
	if res.RequiresFinalization && (v.Status == datatransfer.Finalizing || v.Status == datatransfer.Completing || v.Status == datatransfer.Completed) {
		return true
	}
	progress := v.Received
	if v.IsPull {
		progress = v.Queued
	}
	return res.DataLimit != 0 && progress >= res.DataLimit
}

// setupResponder opens an accepted responder channel and reports nblocks blocks.
func setupResponder(t *rapid.T, r *mgrRig, log *[]string, label string, tid datatransfer.TransferID, typ datatransfer.TypeIdentifier, nblocks int) *mchan {
	role := rapid.SampledFrom([]string{"receivePush", "receivePull"}).Draw(t, label+".role")
	other := gen.Peer(rapid.IntRange(1, 3).Draw(t, label+".other"))
	viaTransport := role == "receivePull" && rapid.Bool().Draw(t, label+".viaTransport")
	v := datatransfer.TypedVoucher{Type: typ, Voucher: gen.SmallNode().Draw(t, label+".voucher")}
	c, err := r.open(role, other, tid, v, gen.SimpleCid().Draw(t, label+".base"), strNode("sel"), viaTransport)
	if err != nil {
		mfail(t, *log, "HARNESS/setup", "opening %s: %v", role, err)
	}
	r.toOngoing(c)
	addVouchers(t, r, c, label)
	for i := 1; i <= nblocks; i++ {
		if _, err := r.report(c, int64(i), uint64(100*i), true); err != nil {
			mfail(t, *log, "HARNESS/setup", "report %d: %v", i, err)
		}
	}
	st := r.sync(c.chid)
	if st == nil || st.Status() != datatransfer.Ongoing {
		mfail(t, *log, "HARNESS/setup", "responder channel not Ongoing after setup")
	}
	c.pubSeen = r.pub.count(c.chid)
	*log = append(*log, fmt.Sprintf("setup %s with %d blocks reported", c, nblocks))
	return c
}

func newPubs(r *mgrRig, c *mchan) []PubEntry {
	all := r.pub.entries(c.chid)
	out := all[c.pubSeen:]
	c.pubSeen = len(all)
	return out
}

func hasCode(es []PubEntry, code datatransfer.EventCode) bool {
	for _, e := range es {
		if e.Code == code {
			return true
		}
	}
	return false
}

func codesOf(es []PubEntry) []string {
	out := make([]string, len(es))
	for i, e := range es {
		out[i] = datatransfer.Events[e.Code]
	}
	return out
}

// TestC04_MgrxRestart: restart requests on accepted channels, with process restart and missing types.
func TestC04_MgrxRestart(t *testing.T) {
	sp := stats.For("C04")
	rapid.Check(t, func(t *rapid.T) {
		types := []datatransfer.TypeIdentifier{"T/a", "T/b"}
		r := newMgrRig(t, gen.Peer(0), dbl.NewRecDatastore(), types...)
		defer r.stop()
		var log []string
		typ := rapid.SampledFrom(types).Draw(t, "type")
		nblocks := rapid.IntRange(0, 6).Draw(t, "blocks")
		c := setupResponder(t, r, &log, "c", 500, typ, nblocks)
		registered := true
		if rapid.Bool().Draw(t, "processRestart") {
			newTypes := types
			if rapid.Bool().Draw(t, "dropType") {
				newTypes = nil
				for _, x := range types {
					if x != typ {
						newTypes = append(newTypes, x)
					}
				}
				registered = false
			}
			r.restartProcess(newTypes)
			log = append(log, fmt.Sprintf("process restart with registry %v", newTypes))
			c.pubSeen = r.pub.count(c.chid)
		}
		before, _ := r.vec(c.chid)
		out := drawOutcome(t, "restartOutcome")
		if registered {
			r.vals[typ].Push(out)
		}
		viaTransport := c.pull() && rapid.Bool().Draw(t, "restartViaTransport")
		req := newRequestMsg(c.chid.ID, true, c.pull(), c.voucher, c.base, c.sel)
		desc := fmt.Sprintf("restart request via %s, type registered=%v, ValidateRestart outcome=%s", map[bool]string{true: "transport", false: "network"}[viaTransport], registered, outcomeStr(out))
		log = append(log, desc)
		sent0, tr0, val0 := r.net.SentLen(), r.tr.Len(), totalValidatorCalls(r)
		var returned datatransfer.Response
		var retErr error
		guard(t, &log, "C04/restart/unregistered-type-panic", desc, func() {
			if viaTransport {
				returned, retErr = r.ev().OnRequestReceived(c.chid, req)
			} else {
				r.recv().ReceiveRequest(bg(), c.other, req)
			}
		})
		r.sync(c.chid)
		st, settled := r.settle(c.chid)
		if !settled {
			mfail(t, log, "C09/no-settle", "channel did not settle after the restart request")
		}
		r.fenceWait()
		after, _ := vecOf(st)
		pubs := newPubs(r, c)
		calls := r.tr.Since(tr0)
		replies := findReply(r, c.chid.ID, c.chid, sent0, tr0, returned)
		vcalls := totalValidatorCalls(r) - val0
		if r.impostorCalls() > 0 {
			mfail(t, log, "C04/refused-registration-consulted", "a validator whose registration was refused (the voucher type was already registered) was consulted %d time(s)", r.impostorCalls())
		}
		log = append(log, fmt.Sprintf("  -> events=%v opens=%d closes=%d replies=%d validatorCalls=%d retErr=%v state=%s", codesOf(pubs), countKind(calls, "open", c.chid), countKind(calls, "close", c.chid), len(replies), vcalls, retErr, after.Short()))
		if len(replies) != 1 {
			mfail(t, log, "C04/reply-count", "%d replies for one restart request", len(replies))
		}
		rep := replies[0].msg
		accepted := registered && outcomeAccepts(out)
		if rep.Accepted() != accepted || !rep.IsRestart() {
			mfail(t, log, "C04/restart-reply", "restart reply Accepted=%v IsRestart=%v, want accepted=%v", rep.Accepted(), rep.IsRestart(), accepted)
		}
		if !registered && vcalls != 0 {
			mfail(t, log, "C04/validator-consulted-unexpectedly", "validator called although the type is not registered")
		}
		if registered {
			if vcalls != 1 {
				mfail(t, log, "C04/restart-not-revalidated", "%d validator calls on restart, want 1", vcalls)
			}
			vc := r.vals[typ].Calls()
			last := vc[len(vc)-1]
			if last.Kind != "restart" || last.Chid != c.chid || last.State == nil || last.State.ChannelID() != c.chid {
				mfail(t, log, "C04/validator-arguments", "ValidateRestart consulted with kind=%s chid=%s", last.Kind, chidStr(last.Chid))
			}
		}
		opens := countKind(calls, "open", c.chid)
		if accepted {
			if !hasCode(pubs, datatransfer.Restart) {
				mfail(t, log, "C10/restart-not-recorded", "accepted restart did not record a Restart event")
			}
			if got, want := voucherResultOf(t, log, rep), wantVoucherResult(out); got != want {
				mfail(t, log, "C04/reply-voucher-result", "restart reply carries %s, validator returned %s", got, want)
			}
			if os.Getenv("VERIF_PROP") == "C11" {
				// the same reply, read as the announcement of the responder's pause state to the initiator
				stats.For("C11").Eval()
				stats.For("C11").Class("restart_reply_announces_pause_state")
				if before.RespPaused || wantStayPaused(out.Result, before) {
					stats.For("C11").Nontrivial(stats.FP("restart-reply", before.RespPaused, wantStayPaused(out.Result, before), c.role))
				}
				if rep.IsPaused() != after.RespPaused {
					mfail(t, log, "C11/restart-reply-announcement", "restart reply announces responder paused=%v but the responder records paused=%v", rep.IsPaused(), after.RespPaused)
				}
			}
			if rep.IsPaused() != wantStayPaused(out.Result, before) {
				mfail(t, log, "C04/reply-pause", "restart reply paused=%v, want %v", rep.IsPaused(), wantStayPaused(out.Result, before))
			}
			if after.DataLimit != out.Result.DataLimit || after.ReqFinal != out.Result.RequiresFinalization {
				mfail(t, log, "C04/limit-not-recorded", "after restart limit=%d fin=%v, validator said %d/%v", after.DataLimit, after.ReqFinal, out.Result.DataLimit, out.Result.RequiresFinalization)
			}
			wantOpens := 0
			if !c.pull() {
				wantOpens = 1
			}
			if opens != wantOpens {
				mfail(t, log, "C10/restart-open-count", "%d transport opens on accepted restart, want %d", opens, wantOpens)
			}
			if after.Status != datatransfer.Ongoing {
				mfail(t, log, "C04/restart-status", "accepted restart left status %s", datatransfer.Statuses[after.Status])
			}
			sp.Class("restart_accepted")
		} else {
			if hasCode(pubs, datatransfer.Restart) || opens != 0 {
				mfail(t, log, "C04/refused-restart-continued", "refused restart recorded Restart=%v and opened the transport %d time(s)", hasCode(pubs, datatransfer.Restart), opens)
			}
			if viaTransport {
				if retErr == nil || retErr == datatransfer.ErrPause || retErr == datatransfer.ErrResume {
					mfail(t, log, "C04/refusal-not-signalled", "refused restart returned %v to the transport", retErr)
				}
			} else if countKind(calls, "close", c.chid) == 0 {
				mfail(t, log, "C04/transport-not-closed", "refused restart did not close the transport channel")
			}
			if after.DataLimit != before.DataLimit || after.ReqFinal != before.ReqFinal {
				mfail(t, log, "C04/refused-restart-recorded-limit", "refused restart changed limit/finalization")
			}
			if registered && out.Err == nil {
				// rejection: the channel fails with the rejection
				if after.Status != datatransfer.Failed || after.Message != datatransfer.ErrRejected.Error() {
					mfail(t, log, "C04/rejected-restart-not-failed", "rejected restart left the channel %s (%q)", datatransfer.Statuses[after.Status], after.Message)
				}
				wantVR := len(before.Results)
				if out.Result.VoucherResult != nil {
					wantVR++
				}
				if len(after.Results) != wantVR {
					mfail(t, log, "C19/rejection-result-not-recorded", "rejection result log has %d entries, want %d", len(after.Results), wantVR)
				}
				sp.Class("restart_rejected")
			} else {
				sp.Class("restart_error_or_unregistered")
			}
		}
		sp.Eval()
		fp := stats.FP("restart", c.role, registered, outcomeStr(out), viaTransport, nblocks > 0)
		if !accepted {
			sp.Nontrivial(fp) // the setup accepted, the restart did not: both kinds of outcome in one case
			sp.Sample(fp, map[string]any{"engine": "mgrx", "kind": "restart request", "case": log})
		}
	})
}

// TestC04_MgrxUpdate: UpdateValidationStatus on accepted responder channels.
func TestC04_MgrxUpdate(t *testing.T) {
	sp := stats.For("C04")
	rapid.Check(t, func(t *rapid.T) {
		r := newMgrRig(t, gen.Peer(0), dbl.NewRecDatastore(), "T/a")
		defer r.stop()
		var log []string
		nblocks := rapid.IntRange(0, 6).Draw(t, "blocks")
		c := setupResponder(t, r, &log, "c", 600, "T/a", nblocks)
		n := rapid.IntRange(1, 3).Draw(t, "updates")
		sawReject := false
		var vector []string
		for i := 0; i < n; i++ {
			before, _ := r.vec(c.chid)
			out := drawOutcome(t, "update")
			out.Err = nil
			res := out.Result
			desc := fmt.Sprintf("UpdateValidationStatus(%s) in %s", outcomeStr(out), before.Short())
			log = append(log, desc)
			vector = append(vector, outcomeStr(out))
			sent0, tr0 := r.net.SentLen(), r.tr.Len()
			var err error
			guard(t, &log, "C04/update-validation/nil-state-panic", desc, func() {
				err = r.mgr.UpdateValidationStatus(bg(), c.chid, res)
			})
			r.sync(c.chid)
			st, settled := r.settle(c.chid)
			if !settled {
				mfail(t, log, "C09/no-settle", "channel did not settle after the update")
			}
			r.fenceWait()
			after, _ := vecOf(st)
			pubs := newPubs(r, c)
			calls := r.tr.Since(tr0)
			replies := findReply(r, c.chid.ID, c.chid, sent0, tr0, nil)
			log = append(log, fmt.Sprintf("  -> err=%v events=%v closes=%d resumes=%d pauses=%d replies=%d state=%s", err, codesOf(pubs), countKind(calls, "close", c.chid), countKind(calls, "resume", c.chid), countKind(calls, "pause", c.chid), len(replies), after.Short()))
			if isTerminal(before.Status) {
				// C02: nothing may change, nothing is announced
				if len(pubs) != 0 || after.Full() != before.Full() {
					mfail(t, log, "C02/state-changed", "update on a terminated channel changed it: events %v", codesOf(pubs))
				}
				continue
			}
			if len(replies) != 1 {
				mfail(t, log, "C04/reply-count", "%d replies for one validation update", len(replies))
			}
			rep := replies[0].msg
			if rep.Accepted() != res.Accepted || !rep.IsValidationResult() {
				mfail(t, log, "C04/reply-accepted-flag", "update reply Accepted=%v, result Accepted=%v", rep.Accepted(), res.Accepted)
			}
			if got, want := voucherResultOf(t, log, rep), wantVoucherResult(out); got != want {
				mfail(t, log, "C04/reply-voucher-result", "update reply carries %s, result has %s", got, want)
			}
			if !res.Accepted {
				sawReject = true
				if after.Status != datatransfer.Failed || after.Message != datatransfer.ErrRejected.Error() {
					mfail(t, log, "C04/rejected-update-not-failed", "rejecting update left the channel %s (%q)", datatransfer.Statuses[after.Status], after.Message)
				}
				if countKind(calls, "close", c.chid) == 0 {
					mfail(t, log, "C04/transport-not-closed", "rejecting update did not close the transport channel")
				}
				wantVR := len(before.Results)
				if res.VoucherResult != nil {
					wantVR++
				}
				if len(after.Results) != wantVR {
					mfail(t, log, "C19/rejection-result-not-recorded", "rejection result log has %d entries, want %d", len(after.Results), wantVR)
				}
				// recorded before the channel failed
				for _, e := range pubs {
					if e.Code == datatransfer.Error && len(e.Vec.Results) != wantVR {
						mfail(t, log, "C19/rejection-result-order", "the rejection's voucher result was not recorded before the channel failed")
					}
				}
				continue
			}
			if after.DataLimit != res.DataLimit || after.ReqFinal != res.RequiresFinalization {
				mfail(t, log, "C04/limit-not-recorded", "after update limit=%d fin=%v, result said %d/%v", after.DataLimit, after.ReqFinal, res.DataLimit, res.RequiresFinalization)
			}
			if rep.IsPaused() != wantStayPaused(res, before) {
				mfail(t, log, "C04/reply-pause", "update reply paused=%v, want %v", rep.IsPaused(), wantStayPaused(res, before))
			}
			if after.RespPaused != wantStayPaused(res, before) {
				mfail(t, log, "C08/pause-state-after-update", "after update ResponderPaused=%v, want %v", after.RespPaused, wantStayPaused(res, before))
			}
			if err != nil {
				mfail(t, log, "C04/update-error", "accepting update returned %v", err)
			}
		}
		sp.Eval()
		if sawReject {
			fp := stats.FP("update", c.role, strings.Join(vector, ";"))
			sp.Nontrivial(fp)
			sp.Sample(fp, map[string]any{"engine": "mgrx", "kind": "validation updates", "case": log})
			sp.Class("update_rejected")
		}
	})
}
