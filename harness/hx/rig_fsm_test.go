package hx

import (
	"context"
	"fmt"
	"runtime"
	"sync"
	"time"

	"github.com/ipfs/go-cid"
	"github.com/ipld/go-ipld-prime/datamodel"
	"github.com/ipld/go-ipld-prime/node/basicnode"
	"github.com/libp2p/go-libp2p/core/peer"

	datatransfer "github.com/filecoin-project/go-data-transfer/v2"
	"github.com/filecoin-project/go-data-transfer/v2/channels"

	"verif/harness/dbl"
	"verif/harness/gen"
)

// watchdog for bounded-liveness waits (typical latency: microseconds).
const watchdog = 20 * time.Second

// PubEntry is one delivered notification.
type PubEntry struct {
	Seq   int64
	Code  datatransfer.EventCode
	Msg   string
	Vec   Vec
	VecEr error
	State datatransfer.ChannelState
	// Puts is the number of datastore writes that existed when the
	// notification was delivered (used by ordering checks only)
	Puts int
}

// PubLog records every notification per channel, in delivery order.
type PubLog struct {
	mu     sync.Mutex
	cond   *sync.Cond
	byChan map[datatransfer.ChannelID][]PubEntry
	all    []PubEntry
	total  int
}

func newPubLog() *PubLog {
	p := &PubLog{byChan: map[datatransfer.ChannelID][]PubEntry{}}
	p.cond = sync.NewCond(&p.mu)
	return p
}

func (p *PubLog) record(evt datatransfer.Event, st datatransfer.ChannelState) {
	v, err := vecOf(st)
	e := PubEntry{Seq: dbl.NextSeq(), Code: evt.Code, Msg: evt.Message, Vec: v, VecEr: err, State: st}
	p.mu.Lock()
	chid := v.ChannelID
	p.byChan[chid] = append(p.byChan[chid], e)
	p.all = append(p.all, e)
	p.total++
	p.cond.Broadcast()
	p.mu.Unlock()
}

func (p *PubLog) entries(chid datatransfer.ChannelID) []PubEntry {
	p.mu.Lock()
	defer p.mu.Unlock()
	out := make([]PubEntry, len(p.byChan[chid]))
	copy(out, p.byChan[chid])
	return out
}

func (p *PubLog) count(chid datatransfer.ChannelID) int {
	p.mu.Lock()
	defer p.mu.Unlock()
	return len(p.byChan[chid])
}

func (p *PubLog) allEntries() []PubEntry {
	p.mu.Lock()
	defer p.mu.Unlock()
	out := make([]PubEntry, len(p.all))
	copy(out, p.all)
	return out
}

// waitCount blocks until chid has at least n entries.
func (p *PubLog) waitCount(chid datatransfer.ChannelID, n int, d time.Duration) bool {
	deadline := time.Now().Add(d)
	timer := time.AfterFunc(d, func() { p.mu.Lock(); p.cond.Broadcast(); p.mu.Unlock() })
	defer timer.Stop()
	p.mu.Lock()
	defer p.mu.Unlock()
	for len(p.byChan[chid]) < n {
		if time.Now().After(deadline) {
			return false
		}
		p.cond.Wait()
	}
	return true
}

var fenceTID = datatransfer.TransferID(0xFE0000FE)

func fenceChid(self peer.ID) datatransfer.ChannelID {
	return datatransfer.ChannelID{Initiator: self, Responder: gen.Peer(15), ID: fenceTID}
}

// fsmRig drives channels.Channels directly.
type fsmRig struct {
	self  peer.ID
	ds    *dbl.RecDatastore
	env   *dbl.Env
	pub   *PubLog
	chs   *channels.Channels
	fence datatransfer.ChannelID
	// incarnation counts reopen()s
	incarnation int
}

type fataler interface {
	Fatalf(format string, args ...any)
	Helper()
}

func newFsmRig(t fataler, self peer.ID, ds *dbl.RecDatastore) *fsmRig {
	r := &fsmRig{self: self, ds: ds, env: dbl.NewEnv(self), pub: newPubLog(), fence: fenceChid(self)}
	r.open(t, true)
	return r
}

func (r *fsmRig) open(t fataler, createFence bool) {
	t.Helper()
	chs, err := channels.New(r.ds, r.pub.record, r.env, r.self)
	if err != nil {
		t.Fatalf("HARNESS channels.New: %v", err)
	}
	if err := chs.Start(context.Background()); err != nil {
		t.Fatalf("HARNESS channels.Start: %v", err)
	}
	r.chs = chs
	if createFence {
		has, _ := chs.HasChannel(r.fence)
		if !has {
			_, err := chs.CreateNew(r.self, fenceTID, gen.CidOf([]byte("fence")), basicnode.NewString("fence"),
				datatransfer.TypedVoucher{Type: "fence", Voucher: basicnode.NewString("fence")}, r.self, r.self, gen.Peer(15))
			if err != nil {
				t.Fatalf("HARNESS create fence channel: %v", err)
			}
		}
	}
}

// flush waits until every event sent to chid so far has been planned and persisted.
func (r *fsmRig) flush(chid datatransfer.ChannelID) (datatransfer.ChannelState, error) {
	ctx, cancel := context.WithTimeout(context.Background(), watchdog)
	defer cancel()
	return r.chs.GetByID(ctx, chid)
}

// fenceWait returns after every notification queued before the call has been delivered.
func (r *fsmRig) fenceWait(t fataler) {
	t.Helper()
	n := r.pub.count(r.fence)
	if err := r.chs.Restart(r.fence); err != nil {
		t.Fatalf("HARNESS fence send: %v", err)
	}
	if !r.pub.waitCount(r.fence, n+1, watchdog) {
		t.Fatalf("HARNESS fence notification not delivered within %s", watchdog)
	}
}

// sync = flush + fence
func (r *fsmRig) sync(t fataler, chid datatransfer.ChannelID) datatransfer.ChannelState {
	t.Helper()
	st, _ := r.flush(chid)
	r.fenceWait(t)
	return st
}

// settle polls until chid has left the cleanup statuses. Returns false on watchdog expiry.
func (r *fsmRig) settle(chid datatransfer.ChannelID) (datatransfer.ChannelState, bool) {
	deadline := time.Now().Add(watchdog)
	for {
		st, err := r.flush(chid)
		if err != nil {
			return nil, false
		}
		if !isCleanup(st.Status()) {
			return st, true
		}
		if time.Now().After(deadline) {
			return st, false
		}
		runtime.Gosched()
		time.Sleep(20 * time.Microsecond)
	}
}

// reopen stops the channels instance (after flushing everything) and starts a new one on the same store.
func (r *fsmRig) reopen(t fataler, chids []datatransfer.ChannelID) {
	t.Helper()
	for _, c := range chids {
		_, _ = r.flush(c)
	}
	r.fenceWait(t)
	r.stop(t)
	r.incarnation++
	r.open(t, true)
}

func (r *fsmRig) stop(t fataler) {
	ctx, cancel := context.WithTimeout(context.Background(), watchdog)
	defer cancel()
	if err := r.chs.Stop(ctx); err != nil {
		t.Fatalf("HARNESS channels.Stop: %v", err)
	}
}

func storeKey(chid datatransfer.ChannelID) string { return "/3/" + chid.String() }

// chanSpec describes a channel to create.
type chanSpec struct {
	SelfInitiator bool
	Pull          bool
	Other         peer.ID
	TID           datatransfer.TransferID
	Base          cid.Cid
	Selector      datamodel.Node
	Voucher       datatransfer.TypedVoucher
}

func (s chanSpec) String() string {
	role := "responder"
	if s.SelfInitiator {
		role = "initiator"
	}
	dir := "push"
	if s.Pull {
		dir = "pull"
	}
	return fmt.Sprintf("%s/%s other=%s tid=%d base=%s sel=%s v=%s", role, dir, gen.PeerName(s.Other), s.TID, s.Base, gen.EncHex(s.Selector), gen.VoucherStr(s.Voucher))
}

// parties returns (initiator, responder, sender, receiver).
func (s chanSpec) parties(self peer.ID) (initiator, responder, sender, receiver peer.ID) {
	if s.SelfInitiator {
		initiator, responder = self, s.Other
	} else {
		initiator, responder = s.Other, self
	}
	if s.Pull {
		sender, receiver = responder, initiator
	} else {
		sender, receiver = initiator, responder
	}
	return
}

func (s chanSpec) chid(self peer.ID) datatransfer.ChannelID {
	i, r, _, _ := s.parties(self)
	return datatransfer.ChannelID{Initiator: i, Responder: r, ID: s.TID}
}

func (r *fsmRig) create(s chanSpec) (datatransfer.ChannelID, error) {
	i, _, snd, rcv := s.parties(r.self)
	return r.chs.CreateNew(r.self, s.TID, s.Base, s.Selector, s.Voucher, i, snd, rcv)
}
