# Table of checks: which tests decide which property, with which budgets.
# (read by ./check; MANIFEST.json is generated from it by ./mkmanifest)

GO = ["go"]
GO126 = ["go1.26.8"]

BINARIES = {
    # all engines on the repository's own toolchain
    "hx": {"go": GO, "pkg": "./hx/", "flags": ["-tags", "verif"], "env": {"GOTOOLCHAIN": "auto"}},
    # the same package under the race detector (concurrency checks)
    "hxrace": {"go": GO, "pkg": "./hx/", "flags": ["-race", "-tags", "verif"], "env": {"GOTOOLCHAIN": "auto"}, "runenv": {"GORACE": "halt_on_error=1"}},
    # virtual-time engines (testing/synctest needs the newer toolchain)
    "vt": {"go": GO126, "pkg": "./vt/", "flags": [], "env": {"GOTOOLCHAIN": "local"}},
    # message constructors / decoders (small dependency tree: fast native fuzzing)
    "wire": {"go": GO, "pkg": "./wire/", "flags": [], "env": {"GOTOOLCHAIN": "auto"}},
}

PROPS = {}


def prop(pid, title, level, engine, technique, runs, assumptions, level_text, level_note, **kw):
    d = {"title": title, "level": level, "engine": engine, "technique": technique, "design_ref": "DESIGN.md section 3 " + pid,
         "runs": runs, "assumptions": assumptions, "level_text": level_text, "level_note": level_note}
    d.update(kw)
    PROPS[pid] = d


def hx(test, quick, thorough, shards=16, **kw):
    d = {"bin": "hx", "test": test, "quick": quick, "thorough": thorough, "shards_thorough": shards}
    d.update(kw)
    return d


def hxr(test, quick, thorough, shards=8, **kw):
    d = {"bin": "hxrace", "test": test, "quick": quick, "thorough": thorough, "shards_thorough": shards}
    d.update(kw)
    return d

def vt(test, quick, thorough, shards=16, **kw):
    d = {"bin": "vt", "test": test, "quick": quick, "thorough": thorough, "shards_thorough": shards}
    d.update(kw)
    return d


TRUST = "trusts go-statemachine's in-order delivery of notifications (used to observe which events were applied), the recording doubles of the harness and rapid's generators/shrinker"

prop("C01", "Completed means delivered", "exploration", "e2e",
     "scenario-based property testing (rapid) of two complete nodes in one process (mocknet + real go-graphsync): relational oracle between both managers and an independent IPLD walk of the payload (block set, bytes, unique size)",
     [hx("TestC01_E2E", 300, 9600, timeout_quick=1500, timeout_thorough=5400), hx("TestC03_Mgrx", 4500, 64000), hx("TestC01_KnownCrashAfterCompleteSent", 1, 1, shards=1, rapid=False)],
     ["the property is conditional on the initiator reporting Completed after an Accept; runs that end otherwise (graphsync's asynchronous requester-side pause, link verification after re-requests) are classified and counted in the evidence, never judged",
      "goroutine interleavings inside graphsync / libp2p are sampled by the Go scheduler, not controlled; a failing case carries its two-sided event history in the replay file",
      "the clause about a pull satisfied from the initiator's own store is checked on the manager level (mgrx), real graphsync always produces a response before completion"],
     "generated scenarios over payload shape, direction, stores, validator scripts, pause / voucher triggers and cut + restart points; schedules are sampled",
     "trusts libp2p mocknet, go-graphsync and go-ipld-prime's traversal (used as the independent walk)")

prop("C02", "Terminal statuses are final", "exploration", "fsmx",
     "stateful property testing (rapid): before/after equality of all accessors, raw persisted bytes and publication count after every generated stimulus on a terminated channel; plus one complete enumeration of terminal status x event method x reopen",
     [hx("TestC02_Fsmx", 4500, 128000), hx("TestC02_FsmxTable", 2, 4, shards=1), hx("TestC02_Mgrx", 3600, 128000), hx("TestC13_Migrate", 1200, 16000)],
     ["side effects outside the channel record (a cancel message, a transport close on the id) are not part of the compared state"],
     "generated-stimulus search over terminated channels; the finite table (3 terminal statuses x 2 roles x 28 event methods x {same process, reopened}) is enumerated completely, everything else is sampled",
     TRUST, exhaustive_note="TestC02_FsmxTable enumerates terminal status x role x every public event method x {same process, after reopen} completely")

prop("C03", "No success without both parties", "exploration", "fsmx",
     "model-based stateful property testing (rapid) against a two-facts lifecycle reference model plus per-event frame conditions",
     [hx("TestC03_Fsmx", 9000, 192000), hx("TestC03_Mgrx", 4500, 128000), hx("TestC13_Migrate", 1200, 16000)],
     ["histories are role consistent (Open only as first event; initiator and responder alphabets kept apart), as produced by the manager",
      "lifecycle events are not raced against the asynchronous CleanupComplete; every ending is settled before the next event"],
     "generated-history search: every applied event is checked against a reference model written from the statement (two completion facts and the responder's last word) and against frame conditions; not exhaustive",
     TRUST)

prop("C04", "Only validated requests move data", "exploration", "mgrx",
     "property testing (rapid) of a real manager over recording doubles: non-interference oracle - acceptance effects imply an accepting validator call in the call log; reply content equals the scripted validator result",
     [hx("TestC04_MgrxNew", 4500, 128000), hx("TestC04_MgrxRestart", 3600, 128000), hx("TestC04_MgrxUpdate", 3600, 128000)],
     ["a validator *error* on restart must produce a refusing reply and no acceptance effect, but need not fail the channel (only a rejection does; DESIGN 6.2)"],
     "generated requests x registry contents x validator outcome vectors x entry paths x later updates x process restart; sampled",
     TRUST)

prop("C05", "Only the counterparty, in its proper role", "exploration", "mgrx",
     "property testing (rapid): datastore snapshot diff and transport call log restricted to pre-existing channel ids after every generated message; single-field mutations of valid restart requests",
     [hx("TestC05_Mgrx", 3600, 128000), hx("TestC05_MgrxRestart", 4500, 128000), hx("TestC16_Gsx", 2400, 32000), hx("TestC13_Migrate", 1200, 16000)],
     ["a refused message may cause transport calls on the non-existing channel id derived from its sender (DESIGN 6.5); 'untouched' is asserted for ids that existed before the message"],
     "generated open-channel sets x senders x message kinds x colliding ids x paths; sampled",
     TRUST)

prop("C10", "Restart resumes the same transfer", "exploration", "mgrx",
     "property testing (rapid): before/after identity diff of the channel record, content of the re-issued request / transport open, validator call order; crash-restart in cleanup statuses",
     [hx("TestC10_GsxPending", 2400, 64000), hx("TestC16_Gsx", 2400, 64000), hx("TestC10_MgrxLocal", 4500, 128000), hx("TestC10_MgrxReplay", 3000, 96000), hx("TestC10_MgrxCleanup", 1800, 32000), hx("TestC04_MgrxRestart", 2400, 32000), hx("TestC05_MgrxRestart", 2400, 32000), hx("TestC13_Migrate", 1200, 16000)],
     ["'a rejected restart fails the channel' is applied to the incoming restart request path; a responder whose own validator rejects a locally requested restart must send nothing and return an error (DESIGN 6.3)"],
     "generated roles x progress points x statuses x process restart x validator outcomes; sampled",
     TRUST)

prop("C12", "Wire format is lossless, stable and safe to decode", "exploration", "wire",
     "property testing (rapid): round trips on three paths, byte equality with an independent schema encoder (own CBOR writer), key-order metamorphic relation, kind classification; structured byte/node mutations and coverage-guided native fuzzing (go test -fuzz) with the totality oracle in the target",
     [{"bin": "wire", "test": "TestC12_RoundTrip", "quick": 60000, "thorough": 3200000, "shards_thorough": 16},
      {"bin": "wire", "test": "TestC12_Hostile", "quick": 90000, "thorough": 6400000, "shards_thorough": 16},
      {"bin": "wire", "test": "TestC12_Seeds", "quick": 1, "thorough": 1, "rapid": False},
      {"bin": "wire", "test": "FuzzFromNet", "gofuzz": True, "tiers": ["thorough"], "fuzztime_thorough": 300},
      vt("TestC15_Inbound", 12000, 1600000)],
     ["ValidationResultResponse is exercised with the message types a response can have (new, update, cancel, complete, voucher-result, restart)",
      "message type numbers and schema key names are literals in the harness, i.e. what deployed peers expect"],
     "generated messages over the full value space and generated hostile inputs; native fuzzing in the thorough tier; sampled, not exhaustive",
     "trusts the harness's own CBOR writer (80 lines) as the schema oracle and go-ipld-prime's generic decoder for stage classification")

prop("C13", "Stored channels survive schema migration unchanged", "exploration", "mig",
     "property testing (rapid): version-2 stores written by an independent CBOR encoder, field-by-field comparison of every accessor after migration, idempotent re-start (byte diff), readiness gate and listener call log",
     [hx("TestC13_Migrate", 1800, 96000), hx("TestC13_Ready", 1800, 64000)],
     ["well-formed version-2 records: map-encoded struct with tuple-encoded stages, as the previous schema version wrote them (key order free)",
      "the readiness 'once' check waits 2 ms for a duplicate call after all listeners have been called"],
     "generated version-2 stores (every status incl. the deprecated ones, arbitrary field values, 0..6 channels); sampled",
     "trusts the harness's own CBOR writer for the version-2 layout")


prop("C14", "Channel monitor: restarts serialized and bounded; one verdict per channel", "exploration", "mon",
     "property testing (rapid) on virtual time (testing/synctest): generated configs x timed event scripts x failure scripts against invariants over the time-stamped call log of a monitor-API double; plus the real manager with its real monitor over recording doubles (real time, millisecond settings) against a reference attempt counter",
     [vt("TestC14_Mon", 60000, 9600000), vt("TestC14_MonNoFailures", 30000, 4800000), hx("TestC14_MgrMonitor", 1200, 48000)],
     ["ties between a delivered event and an internal timer are excluded by construction (event instants are multiples of 10 ms, durations carry a 1..3 us residue; a zero debounce is generated as 1..3 us); ties between two internal instants are tolerated in either order",
      "only time is virtual: goroutine scheduling inside the bubble is still Go's"],
     "generated timed scripts with exact virtual-time instants; sampled, not exhaustive",
     "trusts testing/synctest's virtual clock (go1.26.8) and the monitor-API double")

prop("C15", "Network sends retry boundedly, deliver once; inbound dispatch is faithful", "fault_enumeration", "netx",
     "property testing (rapid) on virtual time over a scripted libp2p host double: stream-open failure patterns (all patterns up to the cap enumerated), cancel instants, write faults, inbound byte streams against call-log oracles",
     [vt("TestC15_Send", 30000, 3200000), vt("TestC15_SendPatterns", 1, 1, shards=1, rapid=False), vt("TestC15_Inbound", 30000, 3200000)],
     ["attempt counts are integral as every caller passes them; 0 behaves as 1 (a send always tries once)",
      "one message per inbound stream (what every sender produces); a stream that ends inside a CBOR value is treated as ended early (no report required), any other undecodable content must be reset and reported"],
     "every fail/succeed pattern of stream opens up to the cap (caps 0..6) is enumerated; cancel instants, latencies, write faults and inbound contents are sampled",
     "trusts testing/synctest's virtual clock and the host / stream doubles",
     exhaustive_note="TestC15_SendPatterns enumerates all 2^n fail/succeed patterns for attempt caps 0..6")

prop("C16", "Transport routes each graphsync event to its channel; none after cleanup", "exploration", "gsx",
     "model-based stateful property testing (rapid): the real graphsync transport over a graphsync double; request-id -> channel ownership model against the call log of a recording events handler",
     [hx("TestC16_Gsx", 7500, 256000), hx("TestC11_GsxMatrix", 1500, 16000), hx("TestC09_Gsx", 1500, 16000), hx("TestC16_GsxCleanupRace", 1500, 32000)],
     ["the completion of a requester-side graphsync request (its response channels closing) is reported through the channel id the transport remembered even after cleanup; the check tolerates that report and asserts silence for hooks and listeners",
      "requestor-cancelled notifications are generated for responding-side requests only (where graphsync raises them)"],
     "generated callback sequences over 2..4 channels with colliding transfer ids and up to 3 requests per channel, cleanup anywhere; sampled",
     "trusts the graphsync double (hook invocation order as in go-graphsync: outgoing-request hook inside Request, Cancel ends the request's channels)")

prop("C17", "Subscribers see every applied event once, in order", "exploration", "mgrx",
     "stateful property testing (rapid): subscriber call logs compared with the datastore write log (independent DAG-CBOR reader) and with a witness subscriber restricted to fenced subscription windows",
     [hx("TestC17_Mgrx", 3000, 96000), hx("TestC09_Fsmx", 1500, 32000)],
     ["every applied event changes the persisted bytes (stage-log timestamp), so the write log has exactly one Put per applied event - checked, not assumed, by the count comparison",
      "'released when the channel terminates' is observable only as 'no call after the terminal event'"],
     "generated multi-channel histories x subscriber sets x (un)subscribe points; sampled",
     TRUST)

prop("C06", "Durable and prefix-consistent across crashes", "fault_enumeration", "fsmx",
     "stateful property testing (rapid) with crash-point enumeration: every datastore write boundary of each generated history is materialised and reopened, decoded state compared with the publication-log snapshot that was current",
     [hx("TestC06_Fsmx", 900, 16000), hx("TestC13_Migrate", 1200, 16000), hx("TestC10_MgrxCleanup", 1800, 32000)],
     ["crash model: the process stops between two datastore writes; a Put / Batch.Commit is atomic (torn writes inside the datastore are out of scope)",
      "messages and type identifiers are kept <= 4096 bytes (the generated codec caps strings at 8192)"],
     "within each generated history the crash points are enumerated (thorough: all write boundaries; quick: all when <= 40, else 40 including first and last); histories themselves are sampled",
     TRUST)

prop("C07", "Transfer accounting counts every block position once", "exploration", "fsmx",
     "model-based property testing (rapid): run-structured block-report sequences with replays, duplicates and reopen against a reference accumulator; arbitrary triples for monotonicity",
     [hx("TestC07_Fsmx", 4500, 128000), hx("TestC07_FsmxArbitrary", 3000, 64000), hx("TestC16_Gsx", 2400, 32000), hxr("TestC07_RaceReports", 300, 12000), hx("TestC13_Migrate", 1200, 16000)],
     ["equality with the sum over distinct positions is asserted for run-structured input in a transferring status only (DESIGN 6.4)"],
     "generated report sequences against a reference accumulator; sampled, not exhaustive",
     TRUST)

prop("C08", "Data limits stop the transfer at the limit", "exploration", "fsmx",
     "model-based property testing (rapid): boundary-biased limit schedules against the reference rule 'pause iff limit != 0, the report advanced the total and total >= limit'",
     [hx("TestC08_Fsmx", 4500, 128000), hx("TestC08_Mgrx", 4500, 128000), hx("TestC13_Migrate", 1200, 16000)],
     ["'no further payload progresses while paused' is asserted on the control flow (pause signal / pause call / nothing resumed), not on bytes in flight inside graphsync"],
     "generated limit schedules with boundary bias (total == limit reached in ~1/6 of the cases); sampled",
     TRUST)

prop("C09", "Cleanup exactly once per ending; closing never hangs", "exploration", "fsmx",
     "stateful property testing (rapid) with racing injections: cleanup-call counter per ending against the publication log, settle-without-input watchdog, crash-restart in cleanup statuses",
     [hx("TestC09_Fsmx", 3000, 64000), hx("TestC09_Mgrx", 3000, 64000), hx("TestC09_Gsx", 3000, 64000), hx("TestC20_GsxCancelUnconfirmed", 32, 320), hx("TestC13_Migrate", 1200, 16000), hx("TestC10_MgrxCleanup", 1800, 32000)],
     ["exactly-once is asserted when no event is applied during the cleanup window; with k racing events the bound is 1..1+k (DESIGN 6.1)",
      "bounded liveness: 'settles' / 'returns' use a 20 s watchdog against microsecond latencies"],
     "generated endings from every reachable status with and without racing events; schedules of the race are sampled by the Go scheduler",
     TRUST)

prop("C11", "Pause state per party", "exploration", "fsmx",
     "model-based stateful property testing (rapid) against a two-flag reference model updated by applied events only; ignored actions must leave accessors and bytes identical",
     [hx("TestC11_Fsmx", 7500, 192000), hx("TestC11_Mgrx", 4500, 128000), hx("TestC11_GsxMatrix", 1500, 16000), hx("TestC04_MgrxRestart", 3000, 64000), hx("TestC13_Migrate", 1200, 16000)],
     [],
     "generated interleavings of the four pause/resume actions and limit pauses in every reachable status, both roles; sampled",
     TRUST)

prop("C18", "Channel identities never collide", "exploration", "racex",
     "property testing (rapid) under the Go race detector: concurrent opens checked for uniqueness / monotonicity / happens-before order of the returned ids; manager lifetimes and duplicate requests with a byte-level diff of the existing record",
     [hx("TestC18_RaceIDGenerator", 25, 1600), hxr("TestC18_RaceOpens", 120, 4800), hx("TestC18_Mgrx", 3600, 96000), hx("TestC18_FsmxDuplicate", 3000, 64000), hx("TestC13_Migrate", 1200, 16000)],
     ["non-decreasing wall clock across manager lifetimes (as the statement assumes)",
      "interleavings of the concurrent opens are sampled by the Go scheduler; the race detector reports only races that occur in executed interleavings"],
     "generated goroutine counts x opens per goroutine (2..16 x 1..40) under -race, generated lifetimes and duplicate points; sampled",
     TRUST + "; the Go race detector")

prop("C19", "Channel state views are total and self-consistent", "exploration", "fsmx",
     "property testing (rapid): total accessor probe under recover and cross-view consistency on every state the explorers obtain, append-only log checks",
     [hx("TestC19_Fsmx", 4500, 128000), hx("TestC19_Mgrx", 3000, 128000), hx("TestC04_MgrxUpdate", 1800, 32000), hx("TestC04_MgrxRestart", 1800, 32000), hx("TestC13_Migrate", 1200, 16000)],
     [],
     "every state produced by generated histories is probed; reachable states are sampled",
     TRUST)

prop("C20", "Concurrent use is free of data races and deadlocks", "exploration", "racex",
     "generated concurrent programs (rapid) under the Go race detector with call-return watchdogs, a production-like Stop protocol and a post-Stop goroutine dump inspection; plus every graphsync hook x every message kind (return check), a graphsync double whose Pause / Unpause are served by the run loop that also delivers notifications (call vs. notification order generated), and the two-node end-to-end scenarios over real graphsync with a watchdog on Stop",
     [hxr("TestC20_Race", 80, 4800), hx("TestC20_GsxHooks", 4500, 128000), hx("TestC16_GsxCleanupRace", 1500, 32000), hxr("TestC18_RaceOpens", 60, 1200), hxr("TestC07_RaceReports", 120, 2400),
      hx("TestC20_GsxLoop", 3000, 64000), hx("TestC20_GsxCancelUnconfirmed", 32, 320), hx("TestC20_GsxOpenRefused", 1500, 32000), hxr("TestC20_GsxDiagnosticsRace", 64, 1600), hx("TestC20_MgrxFailingOption", 900, 16000), hx("TestC01_E2E", 96, 1600, timeout_quick=900, timeout_thorough=3600)],
     ["the harness does not own the Go scheduler: schedules are sampled, and the detector only reports races that occur in executed interleavings",
      "Stop is driven the way production does: API callers are joined first, transport callbacks on existing channels keep arriving until the transport's Shutdown (the last step of Stop)",
      "bounded liveness: a call that has not returned after 20..60 s (typical latency: microseconds) is a deadlock"],
     "weakest check of the set: random concurrent programs (3..8 goroutines x 10..50 operations, GOMAXPROCS in {2,4,16}); a schedule-dependent failure may not replay bit-for-bit, the program text and the detector report / goroutine dump are the artifact",
     TRUST + "; the Go race detector")


ENGINES = [
    {"name": "racex", "path": "harness/hx/racex_test.go (built with -race as hxrace)", "serves_properties": ["C07", "C18", "C20"], "kind_free_text": "rapid-generated concurrent programs over a shared manager / channel under the Go race detector, with call-return watchdogs and post-Stop goroutine inspection"},
    {"name": "e2e", "path": "harness/hx (e2e_*_test.go)", "serves_properties": ["C01"], "kind_free_text": "rapid scenario tests over two full nodes: libp2p mocknet, real go-graphsync, real network/transport/manager"},
    {"name": "gsx", "path": "harness/hx (gsx_*_test.go), harness/dbl/gs.go", "serves_properties": ["C05", "C07", "C09", "C10", "C11", "C16", "C20"], "kind_free_text": "rapid stateful tests of the real graphsync transport over a fake GraphExchange and a scriptable events handler"},
    {"name": "mon", "path": "harness/vt/mon_test.go", "serves_properties": ["C14"], "kind_free_text": "rapid property tests of channelmonitor in a testing/synctest bubble (go1.26.8)"},
    {"name": "netx", "path": "harness/vt/netx_test.go", "serves_properties": ["C15"], "kind_free_text": "rapid property tests of network.NewFromLibp2pHost over a scripted host double in a testing/synctest bubble (go1.26.8)"},
    {"name": "mig", "path": "harness/hx/mig_test.go", "serves_properties": ["C13"], "kind_free_text": "rapid property tests opening version-2 datastores written by an independent encoder"},
    {"name": "wire", "path": "harness/wire", "serves_properties": ["C12"], "kind_free_text": "rapid property tests and a native fuzz target over the message constructors and decoders, with an independent schema encoder"},
    {"name": "mgrx", "path": "harness/hx (mgrx_*_test.go, rig_mgr_test.go)", "serves_properties": ["C02", "C03", "C04", "C05", "C08", "C09", "C10", "C11", "C17", "C19"], "kind_free_text": "rapid property tests driving a real manager (impl.NewDataTransfer) over a recording datastore, transport, network and scripted validators"},
    {"name": "fsmx", "path": "harness/hx (fsmx_*_test.go)", "serves_properties": ["C02", "C03", "C06", "C07", "C08", "C09", "C11", "C19"], "kind_free_text": "rapid state-machine tests driving channels.Channels over a recording datastore and environment"},
]

HOOK_COMMITS = ["b94ffbdb28407b2e81c5a33cc5a2aaaaffa73062"]

_ALL = ["C%02d" % i for i in range(1, 21)]
NOT_APPLICABLE = [
    {"property_id": p, "reason": "check not built yet in this session (implementation in progress, see DESIGN.md section 7)"}
    for p in _ALL if p not in PROPS
]


