# Table of checks: which tests decide which property, with which budgets.
# (read by ./check; MANIFEST.json is generated from it by ./mkmanifest)

GO = ["go"]
GO126 = ["go1.26.8"]

BINARIES = {
    # all engines on the repository's own toolchain
    "hx": {"go": GO, "pkg": "./hx/", "flags": [], "env": {"GOTOOLCHAIN": "auto"}},
}

PROPS = {
    "C03": {
        "title": "No success without both parties",
        "level": "exploration",
        "engine": "fsmx",
        "technique": "model-based stateful property testing (rapid) against a two-facts lifecycle reference model plus per-event frame conditions",
        "design_ref": "DESIGN.md section 3 C03",
        "runs": [
            {"bin": "hx", "test": "TestC03_Fsmx", "quick": 1500, "thorough": 48000, "shards_thorough": 16},
        ],
        "assumptions": [
            "histories are role consistent (Open only as first event; initiator and responder alphabets kept apart), as produced by the manager",
            "lifecycle events are not raced against the asynchronous CleanupComplete; every ending is settled before the next event",
        ],
        "level_text": "generated-history search: every applied event is checked against a reference model written from the statement (two completion facts and the responder's last word) and against frame conditions; not exhaustive",
        "level_note": "trusts go-statemachine's delivery of notifications in order (used to observe applied events) and rapid's generators",
    },
}

ENGINES = [
    {"name": "fsmx", "path": "harness/hx (fsmx_*_test.go)", "serves_properties": ["C03"], "kind_free_text": "rapid state-machine tests driving channels.Channels over a recording datastore and environment"},
]

HOOK_COMMITS = []

_ALL = ["C%02d" % i for i in range(1, 21)]
NOT_APPLICABLE = [
    {"property_id": p, "reason": "check not built yet in this session (implementation in progress, see DESIGN.md section 7)"}
    for p in _ALL if p not in PROPS
]
